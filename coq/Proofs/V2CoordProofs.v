(* Lemmas about the v2 report coordinator model (Model/V2Coord.v). *)
From Verif Require Import Base.Util Model.V2Coord.
From Coq Require Import ZifyBool ZifyNat ZifyN.
Open Scope N_scope.

(* ================================================================================== *)
(* 1. shouldUpdate is the strict part of a total order; upd is its join               *)

Lemma rk_inj a b : rk a = rk b -> a = b.
Proof. unfold rk. destruct (N.eqb_spec a indef), (N.eqb_spec b indef); lia. Qed.

Lemma key_eqb_eq a b : key_eqb a b = true <-> a = b.
Proof.
  destruct a, b; unfold key_eqb; simpl. rewrite andb_true_iff, !N.eqb_eq.
  split; [intros [-> ->]; reflexivity | intros H; inversion H; auto].
Qed.
Lemma key_eqb_refl a : key_eqb a a = true.
Proof. apply key_eqb_eq. reflexivity. Qed.
Lemma key_eqb_sym a b : key_eqb a b = key_eqb b a.
Proof. unfold key_eqb. rewrite (N.eqb_sym (fst a)), (N.eqb_sym (snd a)). reflexivity. Qed.
Lemma key_eqb_spec a b : reflect (a = b) (key_eqb a b).
Proof. apply iff_reflect. symmetry. apply key_eqb_eq. Qed.

Lemma bleb_ble a b : bleb a b = true <-> ble a b.
Proof. unfold bleb, ble. lia. Qed.

Lemma ble_refl a : ble a a.
Proof. unfold ble. right. split; [reflexivity | lia]. Qed.
Lemma ble_total a b : ble a b \/ ble b a.
Proof. unfold ble. lia. Qed.
Lemma ble_trans a b c : ble a b -> ble b c -> ble a c.
Proof. unfold ble. lia. Qed.
Lemma ble_antisym a b : ble a b -> ble b a -> a = b.
Proof.
  destruct a as [ac at_], b as [bc bt]; unfold ble; cbn [fst snd]. intros H1 H2.
  assert (ac = bc) by lia. assert (rk at_ = rk bt) by lia.
  f_equal; [assumption | apply rk_inj; assumption].
Qed.

Lemma upd_r b v : ble b v -> upd b v = v.
Proof.
  destruct b as [bc bt], v as [vc vt]; unfold upd, should_update, ble, rk; cbn [fst snd].
  destruct (N.ltb_spec bc vc); [reflexivity|].
  destruct (N.ltb_spec vc bc); [lia|].
  destruct (N.eqb_spec bt indef); [reflexivity|].
  destruct (N.eqb_spec vt indef); [lia|].
  destruct (N.ltb_spec bt vt); [reflexivity|].
  intros Hle. f_equal; lia.
Qed.
Lemma upd_l b v : ble v b -> upd b v = b.
Proof.
  destruct b as [bc bt], v as [vc vt]; unfold upd, should_update, ble, rk; cbn [fst snd].
  destruct (N.ltb_spec bc vc); [lia|].
  destruct (N.ltb_spec vc bc); [reflexivity|].
  destruct (N.eqb_spec bt indef).
  - destruct (N.eqb_spec vt indef); [subst; intros _; f_equal; lia | lia].
  - destruct (N.eqb_spec vt indef); [reflexivity|].
    destruct (N.ltb_spec bt vt); [lia | reflexivity].
Qed.

Lemma upd_either b v : upd b v = b \/ upd b v = v.
Proof. unfold upd. destruct (should_update b v); auto. Qed.
Lemma upd_ge_l b v : ble b (upd b v).
Proof.
  destruct (ble_total b v) as [H|H]; [rewrite (upd_r _ _ H); exact H | rewrite (upd_l _ _ H); apply ble_refl].
Qed.
Lemma upd_ge_r b v : ble v (upd b v).
Proof.
  destruct (ble_total b v) as [H|H]; [rewrite (upd_r _ _ H); apply ble_refl | rewrite (upd_l _ _ H); exact H].
Qed.
Lemma upd_least b v m : ble b m -> ble v m -> ble (upd b v) m.
Proof. destruct (upd_either b v) as [->| ->]; auto. Qed.
Lemma upd_idem a : upd a a = a.
Proof. apply upd_l, ble_refl. Qed.
Lemma upd_comm a b : upd a b = upd b a.
Proof.
  destruct (ble_total a b) as [H|H].
  - rewrite (upd_r _ _ H), (upd_l _ _ H). reflexivity.
  - rewrite (upd_l _ _ H), (upd_r _ _ H). reflexivity.
Qed.
Lemma upd_assoc a b c : upd a (upd b c) = upd (upd a b) c.
Proof.
  destruct (ble_total a b) as [Hab|Hba]; destruct (ble_total b c) as [Hbc|Hcb].
  - rewrite (upd_r _ _ Hbc), (upd_r _ _ Hab), (upd_r _ _ Hbc). apply upd_r. eapply ble_trans; eauto.
  - rewrite (upd_l _ _ Hcb), (upd_r _ _ Hab), (upd_l _ _ Hcb). reflexivity.
  - rewrite (upd_r _ _ Hbc), (upd_l _ _ Hba). reflexivity.
  - rewrite (upd_l _ _ Hcb), (upd_l _ _ Hba). symmetry. apply upd_l. eapply ble_trans; eauto.
Qed.
Lemma should_update_lt b v : should_update b v = true -> ble b v.
Proof.
  intro H. destruct (ble_total b v) as [|H']; [assumption|].
  pose proof (upd_l _ _ H') as E. unfold upd in E. rewrite H in E. subst. apply ble_refl.
Qed.

Definition join_laws : Prop :=
  (forall a, ble a a) /\
  (forall a b, ble a b \/ ble b a) /\
  (forall a b c, ble a b -> ble b c -> ble a c) /\
  (forall a b, ble a b -> ble b a -> a = b) /\
  (forall a b, ble a (upd a b) /\ ble b (upd a b) /\ (forall m, ble a m -> ble b m -> ble (upd a b) m)) /\
  (forall a b, (ble a b -> upd a b = b) /\ (ble b a -> upd a b = a)) /\
  (forall a, upd a a = a) /\
  (forall a b, upd a b = upd b a) /\
  (forall a b c, upd a (upd b c) = upd (upd a b) c) /\
  (* the order is the one the comment in the source describes: indefinite is the lowest transmit value *)
  (forall c t, ble (c, indef) (c, t)) /\
  (forall c t t', t <> indef -> t' <> indef -> (ble (c, t) (c, t') <-> t <= t')) /\
  (forall c c' t t', c < c' -> ble (c, t) (c', t')).
Lemma join_laws_hold : join_laws.
Proof.
  unfold join_laws.
  split. { exact ble_refl. } split. { exact ble_total. } split. { exact ble_trans. }
  split. { exact ble_antisym. }
  split. { intros a b. split; [apply upd_ge_l | split; [apply upd_ge_r | apply upd_least]]. }
  split. { intros a b. split; [apply upd_r | apply upd_l]. }
  split. { exact upd_idem. } split. { exact upd_comm. } split. { exact upd_assoc. }
  split. { intros c t. unfold ble, rk; cbn [fst snd]. rewrite N.eqb_refl. lia. }
  split. { intros c t t' H1 H2. unfold ble, rk; cbn [fst snd].
           destruct (N.eqb_spec t indef), (N.eqb_spec t' indef); lia. }
  intros c c' t t' H. unfold ble; cbn [fst snd]. lia.
Qed.

(* ---- the fold of upd computes the maximum ---- *)
Definition max_of (m : blk) (l : list blk) : Prop := In m l /\ forall x, In x l -> ble x m.

Lemma max_of_unique m m' l : max_of m l -> max_of m' l -> m = m'.
Proof. intros [H1 H2] [H3 H4]. apply ble_antisym; auto. Qed.

Lemma joinl_from_app o l1 l2 : joinl_from o (l1 ++ l2) = joinl_from (joinl_from o l1) l2.
Proof. unfold joinl_from. apply fold_left_app. Qed.

Lemma joinl_from_char l : forall o,
  match joinl_from o l with
  | None => o = None /\ l = []
  | Some m => (In m l \/ o = Some m) /\ (forall x, In x l -> ble x m) /\ (forall b, o = Some b -> ble b m)
  end.
Proof.
  induction l as [|v l IH]; intro o.
  - simpl. destruct o as [b|]; [|auto]. split; [auto|]. split; [intros x []|]. intros b' E. inversion E. apply ble_refl.
  - change (joinl_from o (v :: l)) with
      (joinl_from (match o with None => Some v | Some b => Some (upd b v) end) l).
    set (o' := match o with None => Some v | Some b => Some (upd b v) end).
    specialize (IH o'). destruct (joinl_from o' l) as [m|].
    + destruct IH as [Hin [Hall Ho]]. split; [|split].
      * destruct Hin as [Hin|E]; [left; right; exact Hin|].
        unfold o' in E. destruct o as [b|].
        -- inversion E. destruct (upd_either b v) as [E'|E']; rewrite E'; [right; reflexivity | left; left; reflexivity].
        -- inversion E. left; left; reflexivity.
      * intros x [<-|Hx]; [|auto]. unfold o' in Ho. destruct o as [b|].
        -- eapply ble_trans; [apply (upd_ge_r b v) | apply Ho; reflexivity].
        -- apply Ho. reflexivity.
      * intros b E. subst o. eapply ble_trans; [apply (upd_ge_l b v) | apply Ho; reflexivity].
    + destruct IH as [E _]. unfold o' in E. destruct o; discriminate.
Qed.

Lemma joinl_some m l : joinl l = Some m <-> max_of m l.
Proof.
  unfold joinl. pose proof (joinl_from_char l None) as H. split.
  - intro E. rewrite E in H. destruct H as [[Hin|D] [Hall _]]; [|discriminate]. split; assumption.
  - intro Hm. destruct (joinl_from None l) as [m'|].
    + destruct H as [[Hin|D] [Hall _]]; [|discriminate]. f_equal. eapply max_of_unique; [split; eassumption | exact Hm].
    + destruct H as [_ ->]. destruct Hm as [[] _].
Qed.
Lemma joinl_none l : joinl l = None <-> l = [].
Proof.
  unfold joinl. pose proof (joinl_from_char l None) as H. split.
  - intro E. rewrite E in H. apply H.
  - intros ->. reflexivity.
Qed.
Lemma joinl_ext l1 l2 : (forall x, In x l1 <-> In x l2) -> joinl l1 = joinl l2.
Proof.
  intro H. destruct (joinl l1) as [m|] eqn:E1.
  - symmetry. apply joinl_some. apply joinl_some in E1. destruct E1 as [Hin Hall].
    split; [apply H; exact Hin | intros x Hx; apply Hall, H, Hx].
  - apply joinl_none in E1. subst. destruct (joinl l2) as [m|] eqn:E2; [|reflexivity].
    apply joinl_some in E2. destruct E2 as [Hin _]. apply H in Hin. destruct Hin.
Qed.

(* transmit-level join *)
Lemma tj_either a b : tj a b = a \/ tj a b = b.
Proof. unfold tj. destruct (rk a <? rk b); auto. Qed.
Lemma tj_ge a b : rk a <= rk (tj a b) /\ rk b <= rk (tj a b).
Proof. unfold tj. destruct (N.ltb_spec (rk a) (rk b)); lia. Qed.
Lemma tmaxl_from_char l : forall d,
  (In (fold_left tj l d) l \/ fold_left tj l d = d) /\
  rk d <= rk (fold_left tj l d) /\ forall x, In x l -> rk x <= rk (fold_left tj l d).
Proof.
  induction l as [|v l IH]; intro d; simpl.
  - split; [auto|]. split; [lia | intros x []].
  - destruct (IH (tj d v)) as [H1 [H2 H3]]. pose proof (tj_ge d v) as [G1 G2]. split; [|split].
    + destruct H1 as [H1|H1]; [left; right; exact H1|]. rewrite H1.
      destruct (tj_either d v) as [E|E]; rewrite E; [right; reflexivity | left; left; reflexivity].
    + lia.
    + intros x [<-|Hx]; [lia | auto].
Qed.
Lemma rk_indef : rk indef = 0.
Proof. unfold rk. rewrite N.eqb_refl. reflexivity. Qed.
Lemma tmaxl_char l : l <> [] -> In (tmaxl l) l /\ forall x, In x l -> rk x <= rk (tmaxl l).
Proof.
  intro Hne. unfold tmaxl. destruct (tmaxl_from_char l indef) as [H1 [H2 H3]]. split; [|exact H3].
  destruct H1 as [H1|H1]; [exact H1|]. destruct l as [|v l]; [contradiction|].
  assert (rk v <= rk (fold_left tj (v :: l) indef)) by (apply H3; left; reflexivity).
  rewrite H1, rk_indef in H. assert (v = indef) by (apply rk_inj; rewrite rk_indef; lia). subst v.
  rewrite H1. left. reflexivity.
Qed.
Lemma tmaxl_numeric l : l <> [] -> Forall (fun t => t <> indef) l ->
  In (tmaxl l) l /\ forall x, In x l -> x <= tmaxl l.
Proof.
  intros Hne Hall. destruct (tmaxl_char l Hne) as [Hin Hmax]. split; [exact Hin|].
  intros x Hx. specialize (Hmax x Hx). rewrite Forall_forall in Hall.
  pose proof (Hall _ Hx). pose proof (Hall _ Hin). unfold rk in Hmax.
  destruct (N.eqb_spec x indef), (N.eqb_spec (tmaxl l) indef); lia.
Qed.

(* ================================================================================== *)
(* 2. Without expiry the caches are plain association lists: a time-free ("pure") model *)

Section Erase.
  Context {K V : Type} (eqb : K -> K -> bool).
  Definition erase (l : list (K * (V * Z))) : list (K * V) := map (fun x => (fst x, fst (snd x))) l.
  Fixpoint pget (l : list (K * V)) (k : K) : option V :=
    match l with [] => None | (k', v) :: t => if eqb k' k then Some v else pget t k end.
  Definition fresh (lim : Z) (l : list (K * (V * Z))) : Prop := Forall (fun x => (lim <= snd (snd x))%Z) l.
  Lemma cget_fresh lim now l k : fresh lim l -> (now <= lim)%Z -> cget eqb now l k = pget (erase l) k.
  Proof.
    intros Hf Hn. induction l as [|[k' [v e]] l IH]; simpl; [reflexivity|].
    inversion Hf as [|? ? Hx Hf']; subst. simpl in Hx. destruct (eqb k' k); [|auto].
    destruct (Z.ltb_spec e now); [lia | reflexivity].
  Qed.
  Lemma fresh_cset lim l k v e : fresh lim l -> (lim <= e)%Z -> fresh lim (cset l k v e).
  Proof. intros. constructor; simpl; assumption. Qed.
End Erase.

Record pst := mkP { pids : list (N * blk); pact : list (key * bool) }.
Definition pinit : pst := mkP [] [].
Definition erase_st (s : st) : pst := mkP (erase (ids s)) (erase (act s)).

Definition pupdate (l : list (N * blk)) (id : N) (v : blk) : list (N * blk) :=
  match pget N.eqb l id with
  | Some b => if should_update b v then (id, v) :: l else l
  | None => (id, v) :: l
  end.
Definition paccept (ps : pst) (k : key) : pst :=
  match pget key_eqb (pact ps) k with
  | Some _ => ps
  | None => mkP (pupdate (pids ps) (snd k) (fst k, indef)) ((k, false) :: pact ps)
  end.
Definition plog (mc : Z) (ps : pst) (k : key) (tv : N) (cf : Z) : pst :=
  if (cf <? mc)%Z then ps else
  match pget key_eqb (pact ps) k with
  | None => ps
  | Some false => mkP (pupdate (pids ps) (snd k) (fst k, tv)) ((k, true) :: pact ps)
  | Some true =>
      match pget N.eqb (pids ps) (snd k) with
      | Some b => if (fst b =? fst k) && negb (snd b =? tv)
                  then mkP (pupdate (pids ps) (snd k) (fst k, tv)) (pact ps) else ps
      | None => ps
      end
  end.
Definition pstep (mc : Z) (ps : pst) (e : ev) : pst :=
  match e with
  | EAccept k => paccept ps k
  | EPerform k tb cf => plog mc ps k tb cf
  | EStale k _ cf => plog mc ps k (stale_tv k) cf
  end.
Definition prun (mc : Z) (h : list ev) (ps : pst) : pst := fold_left (pstep mc) h ps.

Definition fresh_st (lim : Z) (s : st) : Prop := fresh lim (ids s) /\ fresh lim (act s).

Lemma update_id_erase c lim now l id v :
  fresh lim l -> (now <= lim)%Z -> (lim <= now + window c)%Z ->
  erase (update_id c now l id v) = pupdate (erase l) id v /\ fresh lim (update_id c now l id v).
Proof.
  intros Hf H1 H2. unfold update_id, pupdate. rewrite (cget_fresh N.eqb lim now l id Hf H1).
  destruct (pget N.eqb (erase l) id) as [b|].
  - destruct (should_update b v); [|split; [reflexivity|exact Hf]].
    split; [reflexivity | apply fresh_cset; assumption].
  - split; [reflexivity | apply fresh_cset; assumption].
Qed.

Lemma step_erase c lim s now e :
  fresh_st lim s -> (now <= lim)%Z -> (lim <= now + window c)%Z -> (lim <= now + hour)%Z ->
  erase_st (step c s (now, e)) = pstep (minc c) (erase_st s) e /\ fresh_st lim (step c s (now, e)).
Proof.
  intros [Hi Ha] H1 H2 H3.
  assert (Hlog : forall k tv cf,
     erase_st (log_arm c now s k tv cf) = plog (minc c) (erase_st s) k tv cf /\ fresh_st lim (log_arm c now s k tv cf)).
  { intros k tv cf. unfold log_arm, plog. destruct (cf <? minc c)%Z; [split; [reflexivity|split; assumption]|].
    rewrite (cget_fresh key_eqb lim now (act s) k Ha H1). simpl pact.
    destruct (pget key_eqb (erase (act s)) k) as [[|]|]; try (split; [reflexivity|split; assumption]).
    - rewrite (cget_fresh N.eqb lim now (ids s) (snd k) Hi H1). simpl pids.
      destruct (pget N.eqb (erase (ids s)) (snd k)) as [b|]; [|split; [reflexivity|split; assumption]].
      destruct ((fst b =? fst k) && negb (snd b =? tv)); [|split; [reflexivity|split; assumption]].
      destruct (update_id_erase c lim now (ids s) (snd k) (fst k, tv) Hi H1 H2) as [E F].
      unfold erase_st; simpl. rewrite E. split; [reflexivity | split; assumption].
    - destruct (update_id_erase c lim now (ids s) (snd k) (fst k, tv) Hi H1 H2) as [E F].
      unfold erase_st; simpl. rewrite E. split; [reflexivity|]. split; [exact F | apply fresh_cset; assumption]. }
  destruct e as [k|k tb cf|k tb cf]; unfold step; simpl fst; simpl snd; cbv iota; try apply Hlog.
  unfold accept, pstep, paccept. rewrite (cget_fresh key_eqb lim now (act s) k Ha H1). simpl pact.
  destruct (pget key_eqb (erase (act s)) k) as [b|]; [split; [reflexivity|split; assumption]|].
  destruct (update_id_erase c lim now (ids s) (snd k) (fst k, indef) Hi H1 H2) as [E F].
  unfold erase_st; simpl. rewrite E. split; [reflexivity|]. split; [exact F | apply fresh_cset; assumption].
Qed.

Definition no_expiry (c : cfg) (t0 W : Z) (h : list op) (now : Z) : Prop :=
  (W <= window c /\ W <= hour /\ t0 <= now <= t0 + W /\ Forall (fun o => t0 <= fst o <= t0 + W) h)%Z.

Lemma run_erase c t0 W h : forall s,
  (W <= window c)%Z -> (W <= hour)%Z -> Forall (fun o => t0 <= fst o <= t0 + W)%Z h ->
  fresh_st (t0 + W) s ->
  erase_st (run c h s) = prun (minc c) (map snd h) (erase_st s) /\ fresh_st (t0 + W) (run c h s).
Proof.
  intros s Hw Hh Hall. revert s. induction Hall as [|[now e] h Hx Hall IH]; intros s Hf.
  - simpl. auto.
  - simpl in Hx. unfold run, prun. simpl fold_left.
    destruct (step_erase c (t0 + W)%Z s now e Hf) as [E F]; try lia.
    fold (run c h (step c s (now, e))). rewrite <- E. apply IH. exact F.
Qed.

Lemma fresh_init lim : fresh_st lim init.
Proof. split; constructor. Qed.

Lemma run_pure c t0 W h now : no_expiry c t0 W h now ->
  (forall id, stored now (run c h init) id = pget N.eqb (pids (prun (minc c) (map snd h) pinit)) id) /\
  (forall k, cget key_eqb now (act (run c h init)) k = pget key_eqb (pact (prun (minc c) (map snd h) pinit)) k).
Proof.
  intros (Hw & Hh & Hn & Hall).
  destruct (run_erase c t0 W h init Hw Hh Hall (fresh_init _)) as [E [Fi Fa]].
  change (erase_st init) with pinit in E. rewrite <- E. split.
  - intro id. unfold stored. apply (cget_fresh N.eqb (t0 + W)%Z); [exact Fi | lia].
  - intro k. apply (cget_fresh key_eqb (t0 + W)%Z); [exact Fa | lia].
Qed.

(* ================================================================================== *)
(* 3. The pure model's idBlocks are the join of the effective updates                  *)

Lemma pget_pupdate l id v id' :
  pget N.eqb (pupdate l id v) id' =
  if id =? id' then Some (match pget N.eqb l id with Some b => upd b v | None => v end)
  else pget N.eqb l id'.
Proof.
  unfold pupdate, upd. destruct (pget N.eqb l id) as [b|] eqn:E.
  - destruct (should_update b v); simpl.
    + destruct (N.eqb_spec id id'); reflexivity.
    + destruct (N.eqb_spec id id'); [subst; exact E | reflexivity].
  - simpl. destruct (N.eqb_spec id id'); reflexivity.
Qed.

Lemma memK_In k acc : memK k acc = true <-> In k acc.
Proof.
  unfold memK. rewrite existsb_exists. split.
  - intros [x [Hx E]]. apply key_eqb_eq in E. subst. exact Hx.
  - intro H. exists k. split; [exact H | apply key_eqb_refl].
Qed.

Definition has {A} (o : option A) : bool := match o with Some _ => true | None => false end.

Definition Inv (ps : pst) (acc : list key) : Prop :=
  (forall k, memK k acc = has (pget key_eqb (pact ps) k)) /\
  (forall k, memK k acc = true -> exists b, pget N.eqb (pids ps) (snd k) = Some b /\ fst k <= fst b).

Definition app_eff (o : option (key * N * bool)) (old : option blk) (id : N) : option blk :=
  match o with
  | Some x => if snd (e_key x) =? id
              then Some (match old with Some b => upd b (e_val x) | None => e_val x end)
              else old
  | None => old
  end.

Lemma ble_fst a b : ble a b -> fst a <= fst b.
Proof. unfold ble. lia. Qed.

Lemma Inv_update ps acc k tv act' :
  (forall k', memK k' acc = true -> exists b, pget N.eqb (pids ps) (snd k') = Some b /\ fst k' <= fst b) ->
  forall k', memK k' acc = true \/ k' = k ->
    exists b, pget N.eqb (pids (mkP (pupdate (pids ps) (snd k) (fst k, tv)) act')) (snd k') = Some b /\ fst k' <= fst b.
Proof.
  intros HB k' Hk'. simpl. rewrite pget_pupdate. destruct (N.eqb_spec (snd k) (snd k')) as [E|E].
  - eexists. split; [reflexivity|]. destruct Hk' as [Hk' | ->].
    + destruct (HB k' Hk') as [b [Hb Hle]]. rewrite E, Hb.
      pose proof (ble_fst _ _ (upd_ge_l b (fst k, tv))). lia.
    + destruct (pget N.eqb (pids ps) (snd k)) as [b|]; [|simpl; lia].
      pose proof (ble_fst _ _ (upd_ge_r b (fst k, tv))) as H. simpl in H. exact H.
  - destruct Hk' as [Hk' | ->]; [apply HB; exact Hk' | congruence].
Qed.

Lemma plog_char mc ps acc k tv cf :
  Inv ps acc ->
  Inv (plog mc ps k tv cf) acc /\
  forall id, pget N.eqb (pids (plog mc ps k tv cf)) id =
             app_eff (if (mc <=? cf)%Z && memK k acc then Some (k, tv, true) else None)
                     (pget N.eqb (pids ps) id) id.
Proof.
  intros [HA HB]. unfold plog. destruct (Z.ltb_spec cf mc) as [Hc|Hc].
  - replace (mc <=? cf)%Z with false by lia. simpl. split; [split; assumption | reflexivity].
  - replace (mc <=? cf)%Z with true by lia. simpl andb. rewrite (HA k).
    destruct (pget key_eqb (pact ps) k) as [[|]|] eqn:Ek; simpl has.
    + (* confirmed *)
      assert (Hm : memK k acc = true) by (rewrite HA, Ek; reflexivity).
      destruct (HB k Hm) as [b [Hb Hle]]. rewrite Hb.
      destruct ((fst b =? fst k) && negb (snd b =? tv)) eqn:G.
      * split.
        -- split; [exact HA|]. intros k' Hk'. apply (Inv_update ps acc); auto.
        -- intro id. simpl pids. rewrite pget_pupdate. unfold app_eff, e_key, e_val, e_tv. simpl.
           destruct (N.eqb_spec (snd k) id); [subst; rewrite Hb; reflexivity | reflexivity].
      * split; [split; assumption|]. intro id. unfold app_eff, e_key, e_val, e_tv. simpl.
        destruct (N.eqb_spec (snd k) id) as [E|E]; [|reflexivity]. subst id. rewrite Hb. f_equal.
        symmetry. apply upd_l. destruct b as [bc bt]. simpl in *. unfold ble, e_key, e_tv. simpl.
        destruct (N.eqb_spec bc (fst k)); [|lia].
        destruct (N.eqb_spec bt tv); [subst; right; split; [auto | lia] | discriminate].
    + (* not yet confirmed *)
      split.
      * split.
        -- intro k'. simpl. destruct (key_eqb_spec k k') as [<- | Hne]; [rewrite HA, Ek; reflexivity | apply HA].
        -- intros k' Hk'. apply (Inv_update ps acc); auto.
      * intro id. simpl pids. rewrite pget_pupdate. unfold app_eff, e_key, e_val, e_tv. simpl.
        destruct (N.eqb_spec (snd k) id); [subst; reflexivity | reflexivity].
    + split; [split; assumption | reflexivity].
Qed.

Lemma pstep_char mc ps acc e :
  Inv ps acc ->
  Inv (pstep mc ps e) (acc_step acc e) /\
  forall id, pget N.eqb (pids (pstep mc ps e)) id = app_eff (eff mc acc e) (pget N.eqb (pids ps) id) id.
Proof.
  intro HI. destruct e as [k|k tb cf|k tb cf]; simpl pstep; simpl acc_step; simpl eff;
    try (apply plog_char; exact HI).
  destruct HI as [HA HB]. unfold paccept. rewrite (HA k).
  destruct (pget key_eqb (pact ps) k) as [b|] eqn:Ek; simpl has; cbv iota.
  - split; [split; assumption | reflexivity].
  - split.
    + split.
      * intro k'. simpl. rewrite (key_eqb_sym k' k). destruct (key_eqb_spec k k') as [<- | Hne]; simpl; [reflexivity | apply HA].
      * intros k' Hk'. apply (Inv_update ps acc); [exact HB|]. simpl in Hk'. rewrite orb_true_iff in Hk'.
        destruct Hk' as [Hk'|Hk']; [right; apply key_eqb_eq; exact Hk' | left; exact Hk'].
    + intro id. simpl pids. rewrite pget_pupdate. unfold app_eff, e_key, e_val, e_tv. simpl.
      destruct (N.eqb_spec (snd k) id); [subst; reflexivity | reflexivity].
Qed.

Definition vals_of (id : N) (l : list (key * N * bool)) : list blk :=
  map e_val (filter (fun x => snd (e_key x) =? id) l).

Fixpoint acc_after (acc : list key) (h : list ev) : list key :=
  match h with [] => acc | e :: t => acc_after (acc_step acc e) t end.

Lemma prun_char mc h : forall ps acc,
  Inv ps acc ->
  Inv (prun mc h ps) (acc_after acc h) /\
  forall id, pget N.eqb (pids (prun mc h ps)) id =
             joinl_from (pget N.eqb (pids ps) id) (vals_of id (effs mc acc h)).
Proof.
  induction h as [|e h IH]; intros ps acc HI.
  - simpl. split; [exact HI | reflexivity].
  - destruct (pstep_char mc ps acc e HI) as [HI' Hs].
    destruct (IH _ _ HI') as [HI'' Hr]. unfold prun in *. simpl fold_left. simpl acc_after.
    split; [exact HI''|]. intro id. rewrite Hr, Hs. simpl effs. unfold vals_of.
    rewrite filter_app, map_app, joinl_from_app. f_equal.
    destruct (eff mc acc e) as [x|]; simpl; [|reflexivity].
    destruct (snd (e_key x) =? id); simpl; [destruct (pget N.eqb (pids ps) id); reflexivity | reflexivity].
Qed.

Lemma Inv_init : Inv pinit [].
Proof. split; [intro k; reflexivity | intros k H; discriminate]. Qed.

(* ---- activeKeys ---- *)
Definition astep (mc : Z) (k : key) (o : option bool) (e : ev) : option bool :=
  if is_accept k e then (match o with None => Some false | _ => o end)
  else if is_efflog mc k e then (match o with Some _ => Some true | None => None end)
  else o.

Lemma pact_plog mc ps k' tv cf k e :
  ev_key e = k' -> is_log e = true ->
  (match e with EAccept _ => false | EPerform _ _ c' => (mc <=? c')%Z | EStale _ _ c' => (mc <=? c')%Z end) = (mc <=? cf)%Z ->
  pget key_eqb (pact (plog mc ps k' tv cf)) k = astep mc k (pget key_eqb (pact ps) k) e.
Proof.
  intros Hk Hl Hc. unfold astep, is_efflog. rewrite Hl, Hk, Hc.
  replace (is_accept k e) with false by (destruct e; [discriminate| |]; reflexivity).
  unfold plog. destruct (Z.ltb_spec cf mc) as [H|H].
  - replace (mc <=? cf)%Z with false by lia. rewrite andb_false_r. reflexivity.
  - replace (mc <=? cf)%Z with true by lia. rewrite andb_true_r. simpl andb.
    destruct (key_eqb_spec k' k) as [-> | Hne].
    + destruct (pget key_eqb (pact ps) k) as [[|]|] eqn:E.
      * destruct (pget N.eqb (pids ps) (snd k)) as [b|]; [|exact E].
        destruct ((fst b =? fst k) && negb (snd b =? tv)); simpl; exact E.
      * simpl. rewrite key_eqb_refl. reflexivity.
      * exact E.
    + destruct (pget key_eqb (pact ps) k') as [[|]|] eqn:E; try reflexivity.
      * destruct (pget N.eqb (pids ps) (snd k')) as [b|]; [|reflexivity].
        destruct ((fst b =? fst k') && negb (snd b =? tv)); reflexivity.
      * simpl. destruct (key_eqb_spec k' k); [contradiction | reflexivity].
Qed.

Lemma pact_pstep mc ps e k :
  pget key_eqb (pact (pstep mc ps e)) k = astep mc k (pget key_eqb (pact ps) k) e.
Proof.
  destruct e as [k'|k' tb cf|k' tb cf]; simpl pstep;
    try (apply pact_plog; reflexivity).
  unfold astep, paccept. simpl is_accept. unfold is_efflog. simpl.
  destruct (key_eqb_spec k' k) as [-> | Hne].
  - destruct (pget key_eqb (pact ps) k) as [b|] eqn:E; [exact E|]. simpl. rewrite key_eqb_refl. reflexivity.
  - destruct (pget key_eqb (pact ps) k') as [b|] eqn:E; [reflexivity|]. simpl.
    destruct (key_eqb_spec k' k); [contradiction | reflexivity].
Qed.

Lemma pact_prun mc h : forall ps k,
  pget key_eqb (pact (prun mc h ps)) k = fold_left (astep mc k) h (pget key_eqb (pact ps) k).
Proof.
  induction h as [|e h IH]; intros ps k; [reflexivity|].
  unfold prun in *. simpl. rewrite IH, pact_pstep. reflexivity.
Qed.

Lemma afold_true mc k h : fold_left (astep mc k) h (Some true) = Some true.
Proof.
  induction h as [|e h IH]; [reflexivity|]. simpl. unfold astep at 2.
  destruct (is_accept k e); [exact IH|]. destruct (is_efflog mc k e); exact IH.
Qed.
Lemma afold_false mc k h :
  fold_left (astep mc k) h (Some false) = Some (negb (forallb (fun e' => negb (is_efflog mc k e')) h)).
Proof.
  induction h as [|e h IH]; [reflexivity|]. simpl. unfold astep at 2.
  destruct (is_accept k e) eqn:Ea.
  - replace (is_efflog mc k e) with false; [simpl; exact IH|].
    destruct e; [reflexivity | discriminate | discriminate].
  - destruct (is_efflog mc k e); simpl; [apply afold_true | exact IH].
Qed.
Lemma afold_none mc k h :
  match fold_left (astep mc k) h None with Some c => c | None => true end = negb (spec_unconf mc k h).
Proof.
  induction h as [|e h IH]; [reflexivity|]. simpl. unfold astep at 2.
  destruct (is_accept k e) eqn:Ea.
  - rewrite afold_false. reflexivity.
  - destruct (is_efflog mc k e); exact IH.
Qed.

(* ================================================================================== *)
(* 4. State characterisation of the timed model when nothing expires                    *)

Lemma state_char c t0 W h now : no_expiry c t0 W h now ->
  (forall id, stored now (run c h init) id = spec_stored (minc c) (map snd h) id) /\
  (forall k, is_pending now (run c h init) k = spec_pending (minc c) (map snd h) k) /\
  (forall k, is_confirmed now (run c h init) k = spec_confirmed (minc c) (map snd h) k).
Proof.
  intro Hne. destruct (run_pure c t0 W h now Hne) as [Hs Ha].
  destruct (prun_char (minc c) (map snd h) pinit [] Inv_init) as [_ Hj].
  assert (St : forall id, stored now (run c h init) id = spec_stored (minc c) (map snd h) id).
  { intro id. rewrite Hs, Hj. reflexivity. }
  split; [exact St|]. split.
  - intro k. unfold is_pending, spec_pending. fold (stored now (run c h init) (snd k)). rewrite St. reflexivity.
  - intro k. unfold is_confirmed, spec_confirmed. rewrite Ha, pact_prun. simpl pget. apply afold_none.
Qed.

(* ---- what an effective update is, in terms of the history ---- *)
Lemma acc_after_In a : forall acc k, In k (acc_after acc a) <-> In k acc \/ In (EAccept k) a.
Proof.
  induction a as [|e a IH]; intros acc k; simpl; [tauto|]. rewrite IH. destruct e as [k'|k' tb cf|k' tb cf]; simpl.
  - destruct (memK k' acc) eqn:M.
    + apply memK_In in M. split; [tauto|]. intros [H|[H|H]]; auto. inversion H; subst. auto.
    + simpl. split; [intros [[H|H]|H]; subst; auto|]. intros [H|[H|H]]; auto. inversion H; subst. auto.
  - split; [tauto|]. intros [H|[H|H]]; auto. discriminate.
  - split; [tauto|]. intros [H|[H|H]]; auto. discriminate.
Qed.

Lemma effs_app mc a : forall acc b, effs mc acc (a ++ b) = effs mc acc a ++ effs mc (acc_after acc a) b.
Proof. induction a as [|e a IH]; intros acc b; simpl; [reflexivity|]. rewrite IH, app_assoc. reflexivity. Qed.

Lemma effs_In mc h : forall acc x,
  In x (effs mc acc h) <-> exists a e b, h = a ++ e :: b /\ eff mc (acc_after acc a) e = Some x.
Proof.
  induction h as [|e h IH]; intros acc x; simpl.
  - split; [intros [] | intros (a & e & b & H & _); destruct a; discriminate].
  - rewrite in_app_iff, IH. split.
    + intros [H|(a & e' & b & E & H)].
      * exists [], e, h. split; [reflexivity|]. simpl. destruct (eff mc acc e); simpl in H; [destruct H as [->|[]]; reflexivity | destruct H].
      * exists (e :: a), e', b. subst h. split; [reflexivity | exact H].
    + intros (a & e' & b & E & H). destruct a as [|e0 a]; simpl in E; inversion E; subst.
      * left. simpl in H. rewrite H. left. reflexivity.
      * right. exists a, e', b. split; [reflexivity | exact H].
Qed.

Definition eff_at (mc : Z) (a : list ev) (e : ev) (x : key * N * bool) : Prop :=
  let k := e_key x in
  (e = EAccept k /\ ~ In (EAccept k) a /\ e_tv x = indef /\ snd x = false) \/
  (exists cf, e = EPerform k (e_tv x) cf /\ (mc <= cf)%Z /\ In (EAccept k) a /\ snd x = true) \/
  (exists tb cf, e = EStale k tb cf /\ (mc <= cf)%Z /\ In (EAccept k) a /\ e_tv x = fst k + 1 /\ snd x = true).

Lemma eff_char mc a e x : eff mc (acc_after [] a) e = Some x <-> eff_at mc a e x.
Proof.
  assert (HM : forall k, memK k (acc_after [] a) = true <-> In (EAccept k) a).
  { intro k. rewrite memK_In, acc_after_In. simpl. tauto. }
  unfold eff_at. destruct x as [[k tv] lg]. unfold e_key, e_tv. simpl fst. simpl snd.
  destruct e as [k'|k' tb cf|k' tb cf]; simpl eff.
  - destruct (memK k' (acc_after [] a)) eqn:M.
    + split; [discriminate|]. intros [(E & Hn & _)|[(cf & E & _)|(tb & cf & E & _)]]; try discriminate.
      inversion E; subst. exfalso. apply Hn, HM, M.
    + split.
      * intro E. inversion E; subst. left. repeat split; auto. intro H. apply HM in H. congruence.
      * intros [(E & Hn & -> & ->)|[(cf & E & _)|(tb & cf & E & _)]]; try discriminate. inversion E; subst. reflexivity.
  - destruct (Z.leb_spec mc cf) as [Hc|Hc]; simpl andb.
    + destruct (memK k' (acc_after [] a)) eqn:M.
      * split.
        -- intro E. inversion E; subst. right; left. exists cf. repeat split; auto. apply HM, M.
        -- intros [(E & _)|[(cf' & E & _ & _ & ->)|(tb' & cf' & E & _)]]; try discriminate. inversion E; subst. reflexivity.
      * split; [discriminate|]. intros [(E & _)|[(cf' & E & _ & Hi & _)|(tb' & cf' & E & _)]]; try discriminate.
        inversion E; subst. apply HM in Hi. congruence.
    + split; [discriminate|]. intros [(E & _)|[(cf' & E & Hc' & _)|(tb' & cf' & E & _)]]; try discriminate.
      inversion E; subst. lia.
  - destruct (Z.leb_spec mc cf) as [Hc|Hc]; simpl andb.
    + destruct (memK k' (acc_after [] a)) eqn:M.
      * split.
        -- intro E. inversion E; subst. right; right. exists tb, cf. repeat split; auto. apply HM, M.
        -- intros [(E & _)|[(cf' & E & _)|(tb' & cf' & E & _ & _ & -> & ->)]]; try discriminate. inversion E; subst. reflexivity.
      * split; [discriminate|]. intros [(E & _)|[(cf' & E & _)|(tb' & cf' & E & _ & Hi & _)]]; try discriminate.
        inversion E; subst. apply HM in Hi. congruence.
    + split; [discriminate|]. intros [(E & _)|[(cf' & E & _)|(tb' & cf' & E & Hc' & _)]]; try discriminate.
      inversion E; subst. lia.
Qed.

Lemma effs_char mc h x :
  In x (effs mc [] h) <-> exists a e b, h = a ++ e :: b /\ eff_at mc a e x.
Proof.
  rewrite effs_In. split; intros (a & e & b & E & H); exists a, e, b; (split; [exact E|]); apply eff_char; exact H.
Qed.

Lemma id_vals_In mc h id v :
  In v (id_vals mc h id) <-> exists x, In x (effs mc [] h) /\ snd (e_key x) = id /\ e_val x = v.
Proof.
  unfold id_vals. rewrite in_map_iff. split.
  - intros (x & E & H). apply filter_In in H as [H1 H2]. apply N.eqb_eq in H2. eauto.
  - intros (x & H1 & H2 & E). exists x. split; [exact E|]. apply filter_In. split; [exact H1 | apply N.eqb_eq; exact H2].
Qed.
Lemma log_tvs_In mc h k t :
  In t (log_tvs mc h k) <-> In (k, t, true) (effs mc [] h).
Proof.
  unfold log_tvs. rewrite in_map_iff. split.
  - intros (x & E & H). apply filter_In in H as [H1 H2]. apply andb_true_iff in H2 as [H2 H3].
    apply key_eqb_eq in H2. destruct x as [[k' t'] lg]. unfold e_key, e_tv in *. simpl in *. subst. exact H1.
  - intro H. exists (k, t, true). split; [reflexivity|]. apply filter_In. split; [exact H|].
    unfold e_key. simpl. rewrite key_eqb_refl. reflexivity.
Qed.

(* ---- unconfirmed ---- *)
Definition unconfirmed_hist (mc : Z) (h : list ev) (k : key) : Prop :=
  exists a b, h = a ++ EAccept k :: b /\ ~ In (EAccept k) a /\ forall e, In e b -> is_efflog mc k e = false.

Lemma is_accept_true k e : is_accept k e = true <-> e = EAccept k.
Proof.
  destruct e as [k'| |]; simpl; try (split; [discriminate | intro H; inversion H]).
  rewrite key_eqb_eq. split; [intros ->; reflexivity | intro H; inversion H; reflexivity].
Qed.

Lemma spec_unconf_char mc k h : spec_unconf mc k h = true <-> unconfirmed_hist mc h k.
Proof.
  unfold unconfirmed_hist. induction h as [|e h IH]; simpl.
  - split; [discriminate | intros (a & b & E & _); destruct a; discriminate].
  - destruct (is_accept k e) eqn:Ea.
    + apply is_accept_true in Ea. subst e. rewrite forallb_forall. split.
      * intro H. exists [], h. split; [reflexivity|]. split; [intros []|].
        intros e He. specialize (H e He). apply negb_true_iff in H. exact H.
      * intros (a & b & E & Hn & H). destruct a as [|e0 a]; simpl in E; inversion E; subst.
        -- intros e He. apply negb_true_iff. auto.
        -- exfalso. apply Hn. left. reflexivity.
    + rewrite IH. split.
      * intros (a & b & E & Hn & H). exists (e :: a), b. subst h. split; [reflexivity|]. split; [|exact H].
        intros [H1|H1]; [|auto]. subst e. simpl in Ea. rewrite key_eqb_refl in Ea. discriminate.
      * intros (a & b & E & Hn & H). destruct a as [|e0 a]; simpl in E; inversion E; subst.
        -- simpl in Ea. rewrite key_eqb_refl in Ea. discriminate.
        -- exists a, b. split; [reflexivity|]. split; [|exact H]. intro Hi. apply Hn. right. exact Hi.
Qed.

Lemma unconfirmed_iff c t0 W h now k : no_expiry c t0 W h now ->
  (is_confirmed now (run c h init) k = false <-> unconfirmed_hist (minc c) (map snd h) k).
Proof.
  intro Hne. destruct (state_char c t0 W h now Hne) as (_ & _ & Hc). rewrite Hc.
  unfold spec_confirmed. rewrite negb_false_iff. apply spec_unconf_char.
Qed.

(* ---- blocking ---- *)
Lemma effs_facts mc h : forall acc x, In x (effs mc acc h) ->
  (In (e_key x) acc \/ In (EAccept (e_key x)) h) /\ (snd x = false -> e_tv x = indef).
Proof.
  induction h as [|e h IH]; intros acc x; simpl; [intros []|]. rewrite in_app_iff. intros [H|H].
  - destruct e as [k|k tb cf|k tb cf]; simpl in H.
    + destruct (memK k acc); simpl in H; [destruct H|]. destruct H as [<-|[]]. unfold e_key, e_tv. simpl. auto.
    + destruct ((mc <=? cf)%Z && memK k acc) eqn:G; simpl in H; [|destruct H]. destruct H as [<-|[]].
      apply andb_true_iff in G as [_ G]. apply memK_In in G. unfold e_key, e_tv; simpl. split; [auto | discriminate].
    + destruct ((mc <=? cf)%Z && memK k acc) eqn:G; simpl in H; [|destruct H]. destruct H as [<-|[]].
      apply andb_true_iff in G as [_ G]. apply memK_In in G. unfold e_key, e_tv; simpl. split; [auto | discriminate].
  - destruct (IH _ _ H) as [[H1|H1] H2]; (split; [|exact H2]); [|auto].
    destruct e as [k| |]; simpl in H1; auto. destruct (memK k acc); [auto|]. destruct H1 as [<-|H1]; auto.
Qed.

Lemma accept_in_effs mc k h : forall acc,
  In (EAccept k) h -> memK k acc = false -> In (k, indef, false) (effs mc acc h).
Proof.
  induction h as [|e h IH]; intros acc Hin Hm; [destruct Hin|]. simpl. apply in_app_iff.
  destruct (is_accept k e) eqn:Ea.
  - apply is_accept_true in Ea. subst e. left. simpl. rewrite Hm. left. reflexivity.
  - right. apply IH.
    + destruct Hin as [->|Hin]; [simpl in Ea; rewrite key_eqb_refl in Ea; discriminate | exact Hin].
    + destruct e as [k'| |]; simpl; auto. destruct (memK k' acc); [exact Hm|]. simpl. rewrite Hm, orb_false_r.
      simpl in Ea. rewrite key_eqb_sym. exact Ea.
Qed.

Lemma blocking_stored mc h k :
  In (EAccept k) h ->
  (forall k', In (EAccept k') h -> snd k' = snd k -> fst k' <= fst k) ->
  spec_stored mc h (snd k) = Some (fst k, tmaxl (log_tvs mc h k)).
Proof.
  intros Hacc Hhigh. apply joinl_some. remember (log_tvs mc h k) as L eqn:EL. split.
  - apply id_vals_In. destruct L as [|t L'].
    + exists (k, indef, false). split; [apply accept_in_effs; [exact Hacc|reflexivity] | split; reflexivity].
    + assert (Hne : t :: L' <> []) by discriminate.
      destruct (tmaxl_char _ Hne) as [Hin _]. rewrite EL in Hin at 2. apply log_tvs_In in Hin.
      exists (k, tmaxl (t :: L'), true). split; [exact Hin | split; reflexivity].
  - intros v Hv. apply id_vals_In in Hv as (x & Hx & Hid & <-).
    destruct (effs_facts mc h [] x Hx) as [[[]|Hk'] Hnl].
    pose proof (Hhigh _ Hk' Hid) as Hle. unfold ble, e_val. cbn [fst snd].
    destruct (N.eq_dec (fst (e_key x)) (fst k)) as [Ec|Nc]; [|left; lia].
    right. split; [exact Ec|].
    assert (Ek : e_key x = k) by (destruct (e_key x), k; simpl in *; congruence).
    destruct x as [[k' t] lg]. unfold e_key, e_tv in *. simpl in *. subst k'. destruct lg.
    + assert (Hin : In t L) by (rewrite EL; apply log_tvs_In; exact Hx).
      assert (Hne : L <> []) by (intro E; rewrite E in Hin; destruct Hin).
      apply (proj2 (tmaxl_char L Hne)). exact Hin.
    + rewrite (Hnl eq_refl), rk_indef. lia.
Qed.

Definition is_log_of (mc : Z) (k : key) (t : N) (e : ev) : Prop :=
  exists cf, (mc <= cf)%Z /\ (e = EPerform k t cf \/ exists tb, e = EStale k tb cf /\ t = fst k + 1).

Lemma log_tvs_char mc h k t :
  In t (log_tvs mc h k) <->
  exists a e b, h = a ++ e :: b /\ In (EAccept k) a /\ is_log_of mc k t e.
Proof.
  rewrite log_tvs_In, effs_char. unfold eff_at, is_log_of, e_key, e_tv. cbn [fst snd]. split.
  - intros (a & e & b & E & [(_ & _ & _ & D)|[(cf & -> & Hc & Hi & _)|(tb & cf & -> & Hc & Hi & -> & _)]]); [discriminate| |].
    + exists a, (EPerform k t cf), b. split; [exact E|]. split; [exact Hi|]. exists cf. auto.
    + exists a, (EStale k tb cf), b. split; [exact E|]. split; [exact Hi|]. exists cf. split; [exact Hc|]. right. exists tb. auto.
  - intros (a & e & b & E & Hi & cf & Hc & [->|(tb & -> & ->)]); exists a; eexists; exists b; (split; [exact E|]).
    + right; left. exists cf. auto.
    + right; right. exists tb, cf. auto.
Qed.

Lemma blocking c t0 W h now k :
  no_expiry c t0 W h now ->
  In (EAccept k) (map snd h) ->
  (forall k', In (EAccept k') (map snd h) -> snd k' = snd k -> fst k' <= fst k) ->
  let L := log_tvs (minc c) (map snd h) k in
  stored now (run c h init) (snd k) = Some (fst k, tmaxl L) /\
  (forall b, is_pending now (run c h init) (b, snd k) = true <-> b <= tmaxl L) /\
  (L = [] -> forall b, b <= indef -> is_pending now (run c h init) (b, snd k) = true) /\
  (L <> [] -> In (tmaxl L) L /\ (forall t, In t L -> rk t <= rk (tmaxl L)) /\
              (Forall (fun t => t <> indef) L -> forall t, In t L -> t <= tmaxl L)).
Proof.
  intros Hne Hacc Hhigh L. destruct (state_char c t0 W h now Hne) as (Hs & Hp & _).
  pose proof (blocking_stored (minc c) (map snd h) k Hacc Hhigh) as Hst. fold L in Hst.
  assert (P : forall b, is_pending now (run c h init) (b, snd k) = true <-> b <= tmaxl L).
  { intro b. rewrite Hp. unfold spec_pending. cbn [fst snd]. rewrite Hst. cbn [fst snd]. lia. }
  split; [rewrite Hs; exact Hst|]. split; [exact P|]. split.
  - intros E b Hb. apply P. rewrite E. exact Hb.
  - intro HL. destruct (tmaxl_char L HL) as [H1 H2]. split; [exact H1|]. split; [exact H2|].
    intros Hall. apply (tmaxl_numeric L HL Hall).
Qed.

(* ---- expiry ---- *)
Section AllExpired.
  Context {K V : Type} (eqb : K -> K -> bool) (eqb_eq : forall a b, eqb a b = true -> a = b).
  Lemma cget_all_expired now (l : list (K * (V * Z))) k :
    (forall x, In x l -> fst x = k -> (snd (snd x) < now)%Z) -> cget eqb now l k = None.
  Proof.
    induction l as [|[k' [v e]] l IH]; intro H; simpl; [reflexivity|].
    destruct (eqb k' k) eqn:E.
    - apply eqb_eq in E. specialize (H (k', (v, e)) (or_introl eq_refl) E). simpl in H.
      destruct (Z.ltb_spec e now); [reflexivity | lia].
    - apply IH. intros x Hx. apply H. right. exact Hx.
  Qed.
End AllExpired.

Definition stamps_ok (c : cfg) (pre : list op) (s : st) : Prop :=
  (forall x, In x (ids s) -> exists o, In o pre /\ snd (ev_key (snd o)) = fst x /\ snd (snd x) = (fst o + window c)%Z) /\
  (forall x, In x (act s) -> exists o, In o pre /\ ev_key (snd o) = fst x /\ snd (snd x) = (fst o + hour)%Z).

Lemma update_id_stamp c now l id v x :
  In x (update_id c now l id v) -> In x l \/ (fst x = id /\ snd (snd x) = (now + window c)%Z).
Proof.
  unfold update_id, cset. destruct (cget N.eqb now l id) as [b|]; [destruct (should_update b v)|]; simpl;
    intros H; auto; destruct H as [<-|H]; auto.
Qed.

Lemma step_stamps c pre s o : stamps_ok c pre s -> stamps_ok c (pre ++ [o]) (step c s o).
Proof.
  intros [Hi Ha].
  assert (Mi : forall x, In x (ids s) -> exists o', In o' (pre ++ [o]) /\ snd (ev_key (snd o')) = fst x /\ snd (snd x) = (fst o' + window c)%Z).
  { intros x Hx. destruct (Hi x Hx) as (o' & H1 & H2). exists o'. split; [apply in_or_app; auto | exact H2]. }
  assert (Ma : forall x, In x (act s) -> exists o', In o' (pre ++ [o]) /\ ev_key (snd o') = fst x /\ snd (snd x) = (fst o' + hour)%Z).
  { intros x Hx. destruct (Ha x Hx) as (o' & H1 & H2). exists o'. split; [apply in_or_app; auto | exact H2]. }
  assert (Oin : In o (pre ++ [o])) by (apply in_or_app; right; left; reflexivity).
  assert (Hlog : forall tv cf, stamps_ok c (pre ++ [o]) (log_arm c (fst o) s (ev_key (snd o)) tv cf)).
  { intros tv cf. unfold log_arm. destruct (cf <? minc c)%Z; [split; assumption|].
    destruct (cget key_eqb (fst o) (act s) (ev_key (snd o))) as [[|]|]; try (split; assumption).
    - destruct (cget N.eqb (fst o) (ids s) (snd (ev_key (snd o)))) as [b|]; [|split; assumption].
      destruct ((fst b =? fst (ev_key (snd o))) && negb (snd b =? tv)); [|split; assumption].
      split; [|exact Ma]. simpl. intros x Hx. apply update_id_stamp in Hx as [Hx|[E1 E2]]; [auto|].
      exists o. auto.
    - split; simpl.
      + intros x Hx. apply update_id_stamp in Hx as [Hx|[E1 E2]]; [auto|]. exists o. auto.
      + intros x [<-|Hx]; [|auto]. exists o. auto. }
  destruct o as [now e]. destruct e as [k|k tb cf|k tb cf]; unfold step; cbn [fst snd]; cbv iota.
  - unfold accept. destruct (cget key_eqb now (act s) k); [split; assumption|]. split; simpl.
    + intros x Hx. apply update_id_stamp in Hx as [Hx|[E1 E2]]; [auto|]. exists (now, EAccept k). auto.
    + intros x [<-|Hx]; [|auto]. exists (now, EAccept k). auto.
  - apply (Hlog tb cf).
  - apply (Hlog (stale_tv k) cf).
Qed.

Lemma run_stamps c h : forall pre s, stamps_ok c pre s -> stamps_ok c (pre ++ h) (run c h s).
Proof.
  induction h as [|o h IH]; intros pre s H; simpl.
  - rewrite app_nil_r. exact H.
  - replace (pre ++ o :: h) with ((pre ++ [o]) ++ h) by (rewrite <- app_assoc; reflexivity).
    apply IH. apply step_stamps. exact H.
Qed.

Lemma expired_pending c h now b id :
  (forall o, In o h -> snd (ev_key (snd o)) = id -> (fst o + window c < now)%Z) ->
  stored now (run c h init) id = None /\ is_pending now (run c h init) (b, id) = false.
Proof.
  intro H. assert (S0 : stamps_ok c [] init) by (split; intros x []).
  destruct (run_stamps c h [] init S0) as [Hi _]. simpl in Hi.
  assert (E : cget N.eqb now (ids (run c h init)) id = None).
  { apply cget_all_expired; [intros a b'; apply N.eqb_eq|].
    intros x Hx Hk. destruct (Hi x Hx) as (o & Ho & E1 & E2). rewrite E2. apply H; [exact Ho | congruence]. }
  split; [exact E|]. unfold is_pending. cbn [fst snd]. rewrite E. reflexivity.
Qed.

Lemma expired_confirmed c h now k :
  (forall o, In o h -> ev_key (snd o) = k -> (fst o + hour < now)%Z) ->
  is_confirmed now (run c h init) k = true.
Proof.
  intro H. assert (S0 : stamps_ok c [] init) by (split; intros x []).
  destruct (run_stamps c h [] init S0) as [_ Ha]. simpl in Ha.
  unfold is_confirmed. rewrite (cget_all_expired key_eqb); [reflexivity | intros a b'; apply key_eqb_eq|].
  intros x Hx Hk. destruct (Ha x Hx) as (o & Ho & E1 & E2). rewrite E2. apply H; [exact Ho | congruence].
Qed.

(* the entry of an id carries the time of its last Set *)
Lemma cget_first (l : list (N * (blk * Z))) id :
  (forall x, In x l -> fst x <> id) /\ (forall now', cget N.eqb now' l id = None) \/
  exists v e, In (id, (v, e)) l /\ forall now', cget N.eqb now' l id = if (e <? now')%Z then None else Some v.
Proof.
  induction l as [|[k' [v e]] l IH]; simpl.
  - left. split; [intros x []| reflexivity].
  - destruct (N.eqb_spec k' id) as [->|Hne].
    + right. exists v, e. split; [left; reflexivity | reflexivity].
    + destruct IH as [[H1 H2]|(v' & e' & H1 & H2)].
      * left. split; [|exact H2]. intros x [<-|Hx]; [exact Hne | auto].
      * right. exists v', e'. split; [right; exact H1 | exact H2].
Qed.

Lemma expiry_last_set c h id :
  (forall now, stored now (run c h init) id = None) \/
  exists v s, (exists o, In o h /\ snd (ev_key (snd o)) = id /\ fst o = s) /\
    forall now, stored now (run c h init) id = if (s + window c <? now)%Z then None else Some v.
Proof.
  assert (S0 : stamps_ok c [] init) by (split; intros x []).
  destruct (run_stamps c h [] init S0) as [Hi _]. simpl in Hi. unfold stored.
  destruct (cget_first (ids (run c h init)) id) as [[_ H]|(v & e & H1 & H2)]; [left; exact H|].
  right. destruct (Hi _ H1) as (o & Ho & E1 & E2). simpl in E1, E2.
  exists v, (fst o). split; [exists o; auto|]. intro now. rewrite H2, E2. reflexivity.
Qed.

Lemma cget_absent {K V} (eqb : K -> K -> bool) (eqb_eq : forall a b, eqb a b = true -> a = b)
      now (l : list (K * (V * Z))) k :
  (forall x, In x l -> fst x <> k) -> cget eqb now l k = None.
Proof.
  intro H. apply (cget_all_expired eqb eqb_eq). intros x Hx E. exfalso. exact (H x Hx E).
Qed.

Lemma never_accepted c h id now b :
  (forall o k, In o h -> snd o = EAccept k -> snd k <> id) ->
  stored now (run c h init) id = None /\ is_pending now (run c h init) (b, id) = false.
Proof.
  intro H.
  assert (G : forall h s, (forall o k, In o h -> snd o = EAccept k -> snd k <> id) ->
              ((forall x, In x (act s) -> snd (fst x) <> id) /\ (forall x, In x (ids s) -> fst x <> id)) ->
              ((forall x, In x (act (run c h s)) -> snd (fst x) <> id) /\ (forall x, In x (ids (run c h s)) -> fst x <> id))).
  { clear h H. induction h as [|o h IH]; intros s H P; [exact P|]. simpl. apply IH; [intros o' k' Ho'; apply H; right; exact Ho'|].
    destruct P as [Pa Pi].
    assert (Hlog : forall k tv cf, (forall x, In x (act (log_arm c (fst o) s k tv cf)) -> snd (fst x) <> id) /\
                                   (forall x, In x (ids (log_arm c (fst o) s k tv cf)) -> fst x <> id)).
    { intros k tv cf. unfold log_arm. destruct (cf <? minc c)%Z; [split; assumption|].
      destruct (cget key_eqb (fst o) (act s) k) as [cfm|] eqn:E; [|split; assumption].
      assert (Hk : snd k <> id).
      { intro Ek. rewrite (cget_absent key_eqb) in E; [discriminate | intros a b'; apply key_eqb_eq|].
        intros x Hx Ex. apply (Pa x Hx). rewrite Ex. exact Ek. }
      destruct cfm.
      - destruct (cget N.eqb (fst o) (ids s) (snd k)) as [bb|]; [|split; assumption].
        destruct ((fst bb =? fst k) && negb (snd bb =? tv)); [|split; assumption].
        split; [exact Pa|]. simpl. intros x Hx. apply update_id_stamp in Hx as [Hx|[E1 _]]; [auto | congruence].
      - split; simpl.
        + intros x [<-|Hx]; [exact Hk | auto].
        + intros x Hx. apply update_id_stamp in Hx as [Hx|[E1 _]]; [auto | congruence]. }
    destruct o as [t e]. destruct e as [k|k tb cf|k tb cf]; unfold step; cbn [fst snd]; cbv iota; try apply Hlog.
    unfold accept. destruct (cget key_eqb t (act s) k); [split; assumption|].
    assert (Hk : snd k <> id) by (apply (H (t, EAccept k) k); [left; reflexivity | reflexivity]).
    split; simpl.
    - intros x [<-|Hx]; [exact Hk | auto].
    - intros x Hx. apply update_id_stamp in Hx as [Hx|[E1 _]]; [auto | congruence]. }
  destruct (G h init H) as [_ Gi]; [split; intros x []|].
  assert (E : cget N.eqb now (ids (run c h init)) id = None).
  { apply cget_absent; [intros a b'; apply N.eqb_eq | exact Gi]. }
  split; [exact E|]. unfold is_pending. cbn [fst snd]. rewrite E. reflexivity.
Qed.

(* ================================================================================== *)
(* 5. Convergence: admissible re-orderings reach the same blocking state               *)

Definition accept_first (h : list ev) : Prop :=
  forall a e b, h = a ++ e :: b -> is_log e = true -> In (EAccept (ev_key e)) a.

(* static effect of an event: does not look at the position in the history *)
Definition seff (mc : Z) (e : ev) : option (key * N * bool) :=
  match e with
  | EAccept k => Some (k, indef, false)
  | EPerform k tb cf => if (mc <=? cf)%Z then Some (k, tb, true) else None
  | EStale k _ cf => if (mc <=? cf)%Z then Some (k, stale_tv k, true) else None
  end.

Lemma eff_seff mc acc e x : eff mc acc e = Some x -> seff mc e = Some x.
Proof.
  destruct e as [k|k tb cf|k tb cf]; simpl.
  - destruct (memK k acc); [discriminate | auto].
  - destruct (mc <=? cf)%Z; simpl; [|discriminate]. destruct (memK k acc); [auto | discriminate].
  - destruct (mc <=? cf)%Z; simpl; [|discriminate]. destruct (memK k acc); [auto | discriminate].
Qed.

Lemma effs_static mc h x : accept_first h ->
  (In x (effs mc [] h) <-> exists e, In e h /\ seff mc e = Some x).
Proof.
  intro Haf. split.
  - intro H. apply effs_In in H as (a & e & b & E & H). exists e. split; [subst; apply in_or_app; right; left; reflexivity|].
    eapply eff_seff; exact H.
  - intros (e & Hin & Hs). destruct e as [k|k tb cf|k tb cf]; simpl in Hs.
    + inversion Hs; subst. apply accept_in_effs; [exact Hin | reflexivity].
    + destruct (Z.leb_spec mc cf) as [Hc|Hc]; [|discriminate]. inversion Hs; subst.
      apply in_split in Hin as (a & b & E). apply effs_char. exists a, (EPerform k tb cf), b. split; [exact E|].
      right; left. exists cf. unfold e_key, e_tv; cbn [fst snd]. repeat split; auto.
      apply (Haf a (EPerform k tb cf) b E eq_refl).
    + destruct (Z.leb_spec mc cf) as [Hc|Hc]; [|discriminate]. inversion Hs; subst.
      apply in_split in Hin as (a & b & E). apply effs_char. exists a, (EStale k tb cf), b. split; [exact E|].
      right; right. exists tb, cf. unfold e_key, e_tv; cbn [fst snd]. repeat split; auto.
      apply (Haf a (EStale k tb cf) b E eq_refl).
Qed.

Lemma first_accept k h : In (EAccept k) h -> exists a b, h = a ++ EAccept k :: b /\ ~ In (EAccept k) a.
Proof.
  induction h as [|e h IH]; intro Hin; [destruct Hin|].
  destruct (is_accept k e) eqn:Ea.
  - apply is_accept_true in Ea. subst e. exists [], h. split; [reflexivity | intros []].
  - destruct Hin as [->|Hin]; [simpl in Ea; rewrite key_eqb_refl in Ea; discriminate|].
    destruct (IH Hin) as (a & b & E & Hn). exists (e :: a), b. subst h. split; [reflexivity|].
    intros [H|H]; [subst e; simpl in Ea; rewrite key_eqb_refl in Ea; discriminate | auto].
Qed.

Lemma is_efflog_log mc k e : is_efflog mc k e = true -> is_log e = true /\ ev_key e = k.
Proof.
  unfold is_efflog. intro H. apply andb_true_iff in H as [H _]. apply andb_true_iff in H as [H1 H2].
  apply key_eqb_eq in H2. auto.
Qed.

Lemma unconf_static mc h k : accept_first h ->
  (unconfirmed_hist mc h k <-> In (EAccept k) h /\ forall e, In e h -> is_efflog mc k e = false).
Proof.
  intro Haf. split.
  - intros (a & b & E & Hn & Hb). split; [subst; apply in_or_app; right; left; reflexivity|].
    intros e He. subst h. apply in_app_or in He as [He|[<-|He]]; [|reflexivity|auto].
    destruct (is_efflog mc k e) eqn:G; [|reflexivity]. apply is_efflog_log in G as [G1 G2].
    apply in_split in He as (a1 & a2 & Ea). subst a.
    specialize (Haf a1 e (a2 ++ EAccept k :: b)). rewrite <- app_assoc in Haf. specialize (Haf eq_refl G1).
    rewrite G2 in Haf. exfalso. apply Hn. apply in_or_app. left. exact Haf.
  - intros [Hin Hall]. destruct (first_accept k h Hin) as (a & b & E & Hn). exists a, b. split; [exact E|]. split; [exact Hn|].
    intros e He. apply Hall. subst h. apply in_or_app. right. right. exact He.
Qed.

Lemma conv_pure mc h1 h2 :
  Permutation h1 h2 -> accept_first h1 -> accept_first h2 ->
  (forall id, spec_stored mc h1 id = spec_stored mc h2 id) /\
  (forall k, spec_pending mc h1 k = spec_pending mc h2 k) /\
  (forall k, spec_confirmed mc h1 k = spec_confirmed mc h2 k).
Proof.
  intros HP A1 A2.
  assert (S : forall id, spec_stored mc h1 id = spec_stored mc h2 id).
  { intro id. unfold spec_stored. apply joinl_ext. intro v. rewrite !id_vals_In.
    split; intros (x & Hx & R); exists x; (split; [|exact R]).
    - apply (effs_static mc h2 x A2). apply (effs_static mc h1 x A1) in Hx as (e & He & Hs).
      exists e. split; [eapply Permutation_in; eauto | exact Hs].
    - apply (effs_static mc h1 x A1). apply (effs_static mc h2 x A2) in Hx as (e & He & Hs).
      exists e. split; [eapply Permutation_in; [apply Permutation_sym|]; eauto | exact Hs]. }
  split; [exact S|]. split.
  - intro k. unfold spec_pending. rewrite S. reflexivity.
  - intro k. unfold spec_confirmed. f_equal.
    assert (I : spec_unconf mc k h1 = true <-> spec_unconf mc k h2 = true).
    { rewrite !spec_unconf_char, (unconf_static mc h1 k A1), (unconf_static mc h2 k A2).
      split; intros [H1 H2]; (split; [eapply Permutation_in; [|exact H1]; auto using Permutation_sym|]);
        intros e He; apply H2; (eapply Permutation_in; [|exact He]); auto using Permutation_sym. }
    destruct (spec_unconf mc k h1), (spec_unconf mc k h2); try reflexivity; [symmetry|]; apply I; reflexivity.
Qed.

Lemma convergent c t1 W1 t2 W2 h1 h2 now1 now2 :
  no_expiry c t1 W1 h1 now1 -> no_expiry c t2 W2 h2 now2 ->
  Permutation (map snd h1) (map snd h2) ->
  accept_first (map snd h1) -> accept_first (map snd h2) ->
  (forall id, stored now1 (run c h1 init) id = stored now2 (run c h2 init) id) /\
  (forall k, is_confirmed now1 (run c h1 init) k = is_confirmed now2 (run c h2 init) k) /\
  (forall k, is_pending now1 (run c h1 init) k = is_pending now2 (run c h2 init) k).
Proof.
  intros N1 N2 HP A1 A2.
  destruct (state_char c t1 W1 h1 now1 N1) as (S1 & P1 & C1).
  destruct (state_char c t2 W2 h2 now2 N2) as (S2 & P2 & C2).
  destruct (conv_pure (minc c) _ _ HP A1 A2) as (S & P & C).
  split; [intro id; rewrite S1, S2; apply S|]. split; [intro k; rewrite C1, C2; apply C | intro k; rewrite P1, P2; apply P].
Qed.

Lemma zmin_l_spec l : forall d,
  (zmin_l d l <= d)%Z /\ (forall x, In x l -> (zmin_l d l <= x)%Z) /\ (zmin_l d l = d \/ In (zmin_l d l) l).
Proof.
  unfold zmin_l. induction l as [|v l IH]; intro d; simpl.
  - split; [lia|]. split; [intros x []| auto].
  - destruct (IH (Z.min d v)) as (H1 & H2 & H3). split; [lia|]. split.
    + intros x [<-|Hx]; [lia | auto].
    + destruct H3 as [H3|H3]; [|right; right; exact H3]. destruct (Z.min_spec d v) as [[_ E]|[_ E]]; [left; rewrite H3; exact E | right; left; rewrite H3; symmetry; exact E].
Qed.
Lemma zmax_l_spec l : forall d,
  (d <= zmax_l d l)%Z /\ (forall x, In x l -> (x <= zmax_l d l)%Z) /\ (zmax_l d l = d \/ In (zmax_l d l) l).
Proof.
  unfold zmax_l. induction l as [|v l IH]; intro d; simpl.
  - split; [lia|]. split; [intros x []| auto].
  - destruct (IH (Z.max d v)) as (H1 & H2 & H3). split; [lia|]. split.
    + intros x [<-|Hx]; [lia | auto].
    + destruct H3 as [H3|H3]; [|right; right; exact H3]. destruct (Z.max_spec d v) as [[_ E]|[_ E]]; [right; left; rewrite H3; symmetry; exact E | left; rewrite H3; exact E].
Qed.


(* ================================================================================== *)
(* 5b. Only effective updates Set the id's entry (while no activeKeys entry can expire)  *)

Definition in_span (t0 W : Z) (h : list op) (now : Z) : Prop :=
  (t0 <= now <= t0 + W)%Z /\ Forall (fun o => (t0 <= fst o <= t0 + W)%Z) h.

Definition estamp (mc : Z) (acc : list key) (o : op) : list (Z * N) :=
  match eff mc acc (snd o) with Some x => [(fst o, snd (e_key x))] | None => [] end.
Fixpoint estamps (mc : Z) (acc : list key) (h : list op) : list (Z * N) :=
  match h with [] => [] | o :: r => estamp mc acc o ++ estamps mc (acc_step acc (snd o)) r end.

Lemma estamps_teff mc h : forall acc t id, In (t, id) (estamps mc acc h) <-> In t (teff_times mc acc h id).
Proof.
  induction h as [|o r IH]; intros acc t id; simpl; [tauto|]. rewrite !in_app_iff, IH. unfold estamp.
  destruct (eff mc acc (snd o)) as [x|]; simpl; [|tauto].
  destruct (N.eqb_spec (snd (e_key x)) id) as [E|E]; simpl.
  - split; (intros [[H|[]]|H]; [left; left|right; exact H]); [inversion H; reflexivity | subst; reflexivity].
  - split; [intros [[H|[]]|H]; [inversion H; congruence | right; exact H] | intros [[]|H]; right; exact H].
Qed.

Definition J (c : cfg) (lim : Z) (s : st) (acc : list key) (E : list (Z * N)) : Prop :=
  fresh lim (act s) /\
  (forall k, memK k acc = has (pget key_eqb (erase (act s)) k)) /\
  (forall x, In x (ids s) -> exists t, In (t, fst x) E /\ snd (snd x) = (t + window c)%Z).

Lemma J_mono c lim s acc E X : J c lim s acc E -> J c lim s acc (E ++ X).
Proof.
  intros (F & A & S). split; [exact F|]. split; [exact A|]. intros x Hx. destruct (S x Hx) as (t & H1 & H2).
  exists t. split; [apply in_or_app; left; exact H1 | exact H2].
Qed.

Lemma J_ids c lim s acc E now id v act' :
  J c lim s acc E ->
  forall x, In x (ids (mkSt (update_id c now (ids s) id v) act')) ->
    exists t, In (t, fst x) (E ++ [(now, id)]) /\ snd (snd x) = (t + window c)%Z.
Proof.
  intros (_ & _ & S) x Hx. simpl in Hx. apply update_id_stamp in Hx as [Hx|[E1 E2]].
  - destruct (S x Hx) as (t & H1 & H2). exists t. split; [apply in_or_app; left; exact H1 | exact H2].
  - exists now. split; [apply in_or_app; right; left; congruence | exact E2].
Qed.

Lemma J_log c lim s acc E now k tv cf :
  J c lim s acc E -> (now <= lim)%Z -> (lim <= now + hour)%Z ->
  J c lim (log_arm c now s k tv cf) acc
    (E ++ (if (minc c <=? cf)%Z && memK k acc then [(now, snd k)] else [])).
Proof.
  intros HJ H1 H2. pose proof HJ as (F & A & S). unfold log_arm.
  destruct (Z.ltb_spec cf (minc c)) as [Hc|Hc]; [apply J_mono; exact HJ|].
  replace (minc c <=? cf)%Z with true by lia. simpl andb.
  rewrite (cget_fresh key_eqb lim now (act s) k F H1). rewrite (A k).
  destruct (pget key_eqb (erase (act s)) k) as [[|]|] eqn:Ek; simpl has; cbv iota.
  - destruct (cget N.eqb now (ids s) (snd k)) as [b|]; [|apply J_mono; exact HJ].
    destruct ((fst b =? fst k) && negb (snd b =? tv)); [|apply J_mono; exact HJ].
    split; [exact F|]. split; [exact A|]. eapply J_ids; exact HJ.
  - split; [apply fresh_cset; assumption|]. split.
    + intro k'. simpl. destruct (key_eqb_spec k k') as [<- | Hne]; [rewrite A, Ek; reflexivity | apply A].
    + eapply J_ids; exact HJ.
  - rewrite app_nil_r. exact HJ.
Qed.

Lemma J_step c lim s acc E o :
  J c lim s acc E -> (fst o <= lim)%Z -> (lim <= fst o + hour)%Z ->
  J c lim (step c s o) (acc_step acc (snd o)) (E ++ estamp (minc c) acc o).
Proof.
  intros HJ H1 H2. destruct o as [now e]. cbn [fst snd] in *. unfold step, estamp. cbn [fst snd].
  destruct e as [k|k tb cf|k tb cf]; cbv iota; simpl eff; simpl acc_step.
  - pose proof HJ as (F & A & S). unfold accept. rewrite (cget_fresh key_eqb lim now (act s) k F H1). rewrite (A k).
    destruct (pget key_eqb (erase (act s)) k) as [b|] eqn:Ek; simpl has; cbv iota.
    + rewrite app_nil_r. exact HJ.
    + split; [apply fresh_cset; assumption|]. split.
      * intro k'. simpl. rewrite (key_eqb_sym k' k). destruct (key_eqb_spec k k') as [<- | Hne]; simpl; [reflexivity | apply A].
      * unfold e_key. cbn [fst snd]. eapply J_ids; exact HJ.
  - pose proof (J_log c lim s acc E now k tb cf HJ H1 H2) as G.
    destruct ((minc c <=? cf)%Z && memK k acc); exact G.
  - pose proof (J_log c lim s acc E now k (stale_tv k) cf HJ H1 H2) as G.
    destruct ((minc c <=? cf)%Z && memK k acc); exact G.
Qed.

Lemma J_run c lim h : forall s acc E,
  J c lim s acc E -> Forall (fun o => (fst o <= lim /\ lim <= fst o + hour)%Z) h ->
  exists acc', J c lim (run c h s) acc' (E ++ estamps (minc c) acc h).
Proof.
  induction h as [|o r IH]; intros s acc E HJ Hall; simpl.
  - exists acc. rewrite app_nil_r. exact HJ.
  - inversion Hall as [|? ? [Ho1 Ho2] Hr]; subst.
    destruct (IH _ _ _ (J_step c lim s acc E o HJ Ho1 Ho2) Hr) as (acc' & G).
    exists acc'. rewrite <- app_assoc in G. exact G.
Qed.

Lemma eff_expired_pending c t0 W h now b id :
  (W <= hour)%Z -> in_span t0 W h now ->
  (forall t, In t (teff_times (minc c) [] h id) -> (t + window c < now)%Z) ->
  is_pending now (run c h init) (b, id) = false.
Proof.
  intros Hw [Hn Hall] Hold.
  assert (J0 : J c (t0 + W)%Z init [] []).
  { split; [constructor|]. split; [intro k; reflexivity | intros x []]. }
  destruct (J_run c (t0 + W)%Z h init [] [] J0) as (acc' & _ & _ & S).
  { eapply Forall_impl; [|exact Hall]. simpl. intros o Ho. lia. }
  simpl in S. unfold is_pending. cbn [fst snd].
  rewrite (cget_all_expired N.eqb); [reflexivity | intros a b'; apply N.eqb_eq|].
  intros x Hx Ex. destruct (S x Hx) as (t & H1 & H2). rewrite H2. apply Hold.
  apply estamps_teff. rewrite <- Ex. exact H1.
Qed.

Lemma span_sound h now :
  in_span (zmin_l now (map fst h)) (zmax_l now (map fst h) - zmin_l now (map fst h)) h now.
Proof.
  destruct (zmin_l_spec (map fst h) now) as (L1 & L2 & _). destruct (zmax_l_spec (map fst h) now) as (M1 & M2 & _).
  split; [lia|]. apply Forall_forall. intros o Ho.
  pose proof (L2 _ (in_map fst _ _ Ho)). pose proof (M2 _ (in_map fst _ _ Ho)). lia.
Qed.
Lemma span_complete t0 W h now : in_span t0 W h now ->
  (zmax_l now (map fst h) - zmin_l now (map fst h) <= W)%Z.
Proof.
  intros (Hn & Hall). rewrite Forall_forall in Hall.
  assert (B : forall x, In x (map fst h) -> (t0 <= x <= t0 + W)%Z).
  { intros x Hx. apply in_map_iff in Hx as (o & <- & Ho). apply Hall. exact Ho. }
  destruct (zmin_l_spec (map fst h) now) as (_ & _ & [L|L]); destruct (zmax_l_spec (map fst h) now) as (_ & _ & [M|M]);
    try (apply B in L); try (apply B in M); lia.
Qed.

(* ================================================================================== *)
(* 6. The checker K                                                                    *)

Definition query_spec (c : cfg) (h : list op) (qt : Z) (k : key) (a : ans) : Prop :=
  a_err a = false /\
  ((exists t0 W, no_expiry c t0 W h qt) ->
     (forall m, max_of m (id_vals (minc c) (map snd h) (snd k)) -> (a_pend a = true <-> fst k <= snd m)) /\
     (id_vals (minc c) (map snd h) (snd k) = [] -> a_pend a = false) /\
     (a_conf a = false <-> unconfirmed_hist (minc c) (map snd h) k)) /\
  ((forall o, In o h -> snd (ev_key (snd o)) = snd k -> (fst o + window c < qt)%Z) -> a_pend a = false) /\
  ((forall o, In o h -> ev_key (snd o) = k -> (fst o + hour < qt)%Z) -> a_conf a = true) /\
  ((exists t0 W, (W <= hour)%Z /\ in_span t0 W h qt) ->
   (forall t, In t (teff_times (minc c) [] h (snd k)) -> (t + window c < qt)%Z) -> a_pend a = false).

Definition perm_spec (c : cfg) (h : list op) (code : N) (p : perm_run) : Prop :=
  Permutation (map snd (perm_hist h p)) (map snd h) /\
  accept_first (map snd (perm_hist h p)) /\
  (exists t0 W, no_expiry c t0 W (perm_hist h p) (pr_qt p)) /\
  pr_code p = code.

Definition C17_spec (k : c17_case) : Prop :=
  Forall2 (query_spec (cc_cfg k) (cc_h k) (cc_qt k)) (cc_q k) (cc_obs k) /\
  (cc_perms k <> [] ->
     accept_first (map snd (cc_h k)) /\
     (exists t0 W, no_expiry (cc_cfg k) t0 W (cc_h k) (cc_qt k)) /\
     Forall (perm_spec (cc_cfg k) (cc_h k) (cc_code k)) (cc_perms k) /\
     (forall p, In p (cc_perms k) -> pr_obs k p = cc_obs k)).

Lemma no_expiryb_sound c h now : no_expiryb c h now = true -> exists t0 W, no_expiry c t0 W h now.
Proof.
  unfold no_expiryb. intro H.
  destruct (zmin_l_spec (map fst h) now) as (L1 & L2 & _). destruct (zmax_l_spec (map fst h) now) as (M1 & M2 & _).
  exists (zmin_l now (map fst h)), (zmax_l now (map fst h) - zmin_l now (map fst h))%Z.
  unfold no_expiry. split; [lia|]. split; [lia|]. split; [lia|].
  apply Forall_forall. intros o Ho. pose proof (L2 _ (in_map fst _ _ Ho)). pose proof (M2 _ (in_map fst _ _ Ho)). lia.
Qed.
Lemma no_expiryb_complete c t0 W h now : no_expiry c t0 W h now -> no_expiryb c h now = true.
Proof.
  intros (Hw & Hh & Hn & Hall). unfold no_expiryb. rewrite Forall_forall in Hall.
  assert (B : forall x, In x (map fst h) -> (t0 <= x <= t0 + W)%Z).
  { intros x Hx. apply in_map_iff in Hx as (o & <- & Ho). apply Hall. exact Ho. }
  destruct (zmin_l_spec (map fst h) now) as (_ & _ & [L|L]); destruct (zmax_l_spec (map fst h) now) as (_ & _ & [M|M]);
    try (apply B in L); try (apply B in M); lia.
Qed.

Lemma ans_eqb_eq a b : ans_eqb a b = true <-> a = b.
Proof.
  destruct a as [[a1 a2] a3], b as [[b1 b2] b3]. unfold ans_eqb, a_pend, a_err, a_conf. simpl.
  rewrite !andb_true_iff, !Bool.eqb_true_iff. split; [intros [[-> ->] ->]; reflexivity | intro H; inversion H; auto].
Qed.

Lemma id_all_older_spec c h id now :
  (forall o, In o h -> snd (ev_key (snd o)) = id -> (fst o + window c < now)%Z) <-> id_all_older c h id now = true.
Proof.
  unfold id_all_older. rewrite forallb_forall. split; intros H o Ho.
  - specialize (H o Ho). destruct (N.eqb_spec (snd (ev_key (snd o))) id); simpl; [specialize (H e); lia | reflexivity].
  - intro E. specialize (H o Ho). rewrite E, N.eqb_refl in H. simpl in H. lia.
Qed.
Lemma key_all_older_spec h k now :
  (forall o, In o h -> ev_key (snd o) = k -> (fst o + hour < now)%Z) <-> key_all_older h k now = true.
Proof.
  unfold key_all_older. rewrite forallb_forall. split; intros H o Ho.
  - specialize (H o Ho). destruct (key_eqb_spec (ev_key (snd o)) k); simpl; [specialize (H e); lia | reflexivity].
  - intro E. specialize (H o Ho). rewrite E, key_eqb_refl in H. simpl in H. lia.
Qed.

Lemma check_query_sound c h qt k a : check_query c h qt k a = true -> query_spec c h qt k a.
Proof.
  unfold check_query. rewrite !andb_true_iff. intros [[[[He Hn] Hi] Hk] Hf]. unfold query_spec.
  split; [destruct (a_err a); [discriminate | reflexivity]|]. split; [|split; [|split]].
  - intros (t0 & W & Hne). rewrite (no_expiryb_complete c t0 W h qt Hne) in Hn. simpl in Hn.
    apply andb_true_iff in Hn as [Hp Hc]. apply Bool.eqb_prop in Hp, Hc. rewrite Hp, Hc.
    unfold spec_pending, spec_stored, spec_confirmed. split; [|split].
    + intros m Hm. apply joinl_some in Hm. rewrite Hm. lia.
    + intros E. rewrite E. reflexivity.
    + rewrite negb_false_iff. apply spec_unconf_char.
  - intro H. apply id_all_older_spec in H. rewrite H in Hi. simpl in Hi. apply negb_true_iff in Hi. exact Hi.
  - intro H. apply key_all_older_spec in H. rewrite H in Hk. simpl in Hk. exact Hk.
  - intros (t0 & W & Hw & Hs) Hold. unfold id_eff_older, span_hourb in Hf.
    pose proof (span_complete t0 W h qt Hs) as Hc.
    replace (zmax_l qt (map fst h) - zmin_l qt (map fst h) <=? hour)%Z with true in Hf by lia. simpl in Hf.
    assert (F : forallb (fun t => (t + window c <? qt)%Z) (teff_times (minc c) [] h (snd k)) = true).
    { apply forallb_forall. intros t Ht. specialize (Hold t Ht). lia. }
    rewrite F in Hf. simpl in Hf. apply negb_true_iff in Hf. exact Hf.
Qed.

Lemma check_queries_sound c h qt q : forall obs,
  check_queries c h qt q obs = true -> Forall2 (query_spec c h qt) q obs.
Proof.
  induction q as [|k q IH]; intros [|a obs]; simpl; intro H; try discriminate; [constructor|].
  apply andb_true_iff in H as [H1 H2]. constructor; [apply check_query_sound; exact H1 | apply IH; exact H2].
Qed.

Lemma accept_first_from_sound h : forall acc, accept_first_from acc h = true ->
  forall a e b, h = a ++ e :: b -> is_log e = true -> In (ev_key e) acc \/ In (EAccept (ev_key e)) a.
Proof.
  induction h as [|e0 h IH]; intros acc Hb a e b E Hl; [destruct a; discriminate|].
  destruct a as [|e1 a]; simpl in E; inversion E; subst.
  - left. destruct e as [k|k tb cf|k tb cf]; [discriminate| |]; simpl in Hb;
      apply andb_true_iff in Hb as [Hb _]; apply memK_In in Hb; exact Hb.
  - destruct e1 as [k|k tb cf|k tb cf]; simpl in Hb.
    + destruct (IH _ Hb a e b eq_refl Hl) as [[<-|H]|H]; [right; left; reflexivity | left; exact H | right; right; exact H].
    + apply andb_true_iff in Hb as [_ Hb]. destruct (IH _ Hb a e b eq_refl Hl) as [H|H]; [left; exact H | right; right; exact H].
    + apply andb_true_iff in Hb as [_ Hb]. destruct (IH _ Hb a e b eq_refl Hl) as [H|H]; [left; exact H | right; right; exact H].
Qed.
Lemma accept_firstb_sound h : accept_firstb h = true -> accept_first h.
Proof.
  intros H a e b E Hl. destruct (accept_first_from_sound h [] H a e b E Hl) as [[]|H']. exact H'.
Qed.

Lemma nodup_nat_NoDup l : nodup_nat l = true -> NoDup l.
Proof.
  induction l as [|x l IH]; simpl; intro H; [constructor|]. apply andb_true_iff in H as [H1 H2].
  constructor; [|auto]. intro Hin. apply negb_true_iff in H1.
  assert (existsb (Nat.eqb x) l = true) by (apply existsb_exists; exists x; split; [exact Hin | apply Nat.eqb_refl]).
  congruence.
Qed.
Lemma perm_idx_ok_perm n l : perm_idx_ok n l = true -> Permutation l (seq 0 n).
Proof.
  unfold perm_idx_ok. rewrite !andb_true_iff. intros [[H1 H2] H3]. apply Nat.eqb_eq in H1.
  apply NoDup_Permutation_bis.
  - apply nodup_nat_NoDup. exact H3.
  - rewrite seq_length. lia.
  - intros i Hi. rewrite forallb_forall in H2. specialize (H2 i Hi). apply Nat.ltb_lt in H2. apply in_seq. lia.
Qed.
Lemma map_nth_seq {A} (l : list A) d : map (fun i => nth i l d) (seq 0 (length l)) = l.
Proof.
  induction l as [|x l IH]; [reflexivity|]. simpl. f_equal. rewrite <- seq_shift, map_map. exact IH.
Qed.
Lemma perm_hist_perm h p : perm_idx_ok (length h) (map fst (pr_idx p)) = true ->
  Permutation (map snd (perm_hist h p)) (map snd h).
Proof.
  intro H. apply perm_idx_ok_perm in H. unfold perm_hist. rewrite map_map. cbn [snd].
  replace (map snd h) with (map (fun i => snd (nth i h dummy_op)) (seq 0 (length h))).
  2:{ rewrite <- (map_map (fun i => nth i h dummy_op) snd). rewrite map_nth_seq. reflexivity. }
  rewrite <- (map_map fst (fun i => snd (nth i h dummy_op))). apply Permutation_map. exact H.
Qed.

Lemma check_perm_sound c h code p : check_perm c h code p = true -> perm_spec c h code p.
Proof.
  unfold check_perm. rewrite !andb_true_iff. intros [[[H1 H2] H3] H4]. unfold perm_spec.
  split; [apply perm_hist_perm; exact H1|]. split; [apply accept_firstb_sound; exact H2|].
  split; [apply no_expiryb_sound; exact H3|]. apply N.eqb_eq. exact H4.
Qed.

Lemma C17_check_sound k : C17_check k = true -> C17_spec k.
Proof.
  unfold C17_check, C17_spec. intro H. apply andb_true_iff in H as [H1 H2].
  split; [apply check_queries_sound; exact H1|]. intro Hne.
  destruct (cc_perms k) as [|p ps]; [contradiction|].
  apply andb_true_iff in H2 as [H2 H3]. apply andb_true_iff in H2 as [H2 H4].
  split; [apply accept_firstb_sound; exact H2|]. split; [apply no_expiryb_sound; exact H4|].
  rewrite forallb_forall in H3. split.
  - apply Forall_forall. intros q Hq. apply check_perm_sound. apply H3. exact Hq.
  - intros q Hq. specialize (H3 q Hq). apply check_perm_sound in H3. destruct H3 as (_ & _ & _ & E).
    unfold pr_obs, cc_obs. rewrite E. reflexivity.
Qed.

(* the model itself satisfies the query clauses of K on every input *)
Lemma model_passes_queries c h qt q : check_queries c h qt q (model_ans c h qt q) = true.
Proof.
  unfold model_ans. induction q as [|k q IH]; [reflexivity|]. simpl. rewrite IH, andb_true_r.
  unfold check_query, a_err, a_pend, a_conf. cbn [fst snd]. rewrite !andb_true_iff. split; [split; [split; [split; [reflexivity|]|]|]|].
  - destruct (no_expiryb c h qt) eqn:E; [|reflexivity]. simpl.
    apply no_expiryb_sound in E as (t0 & W & Hne). destruct (state_char c t0 W h qt Hne) as (_ & Hp & Hc).
    rewrite Hp, Hc, !Bool.eqb_reflx. reflexivity.
  - destruct (id_all_older c h (snd k) qt) eqn:E; [|reflexivity]. simpl. pose proof (proj2 (id_all_older_spec c h (snd k) qt) E) as E'. clear E. rename E' into E.
    destruct k as [b id]. cbn [snd] in E. rewrite (proj2 (expired_pending c h qt b id E)). reflexivity.
  - destruct (key_all_older h k qt) eqn:E; [|reflexivity]. simpl. pose proof (proj2 (key_all_older_spec h k qt) E) as E'.
    apply expired_confirmed. exact E'.
  - destruct (id_eff_older c h (snd k) qt) eqn:E; [|reflexivity]. simpl. unfold id_eff_older in E.
    apply andb_true_iff in E as [E1 E2]. unfold span_hourb in E1. rewrite forallb_forall in E2.
    destruct k as [b id]. cbn [snd] in E2.
    rewrite (eff_expired_pending c _ _ h qt b id (proj1 (Z.leb_le _ _) E1) (span_sound h qt)); [reflexivity|].
    intros t Ht. specialize (E2 t Ht). lia.
Qed.

(* ================================================================================== *)
(* 7. Statements in the form exported by Props/C17.v                                   *)

Lemma tmaxl_single t : tmaxl [t] = t.
Proof.
  unfold tmaxl, tj. simpl. rewrite rk_indef. destruct (N.ltb_spec 0 (rk t)); [reflexivity|].
  apply rk_inj. rewrite rk_indef. lia.
Qed.

Lemma blocking_full c t0 W h now k :
  no_expiry c t0 W h now ->
  In (EAccept k) (map snd h) ->
  (forall k', In (EAccept k') (map snd h) -> snd k' = snd k -> fst k' <= fst k) ->
  let L := log_tvs (minc c) (map snd h) k in
  (forall t, In t L <-> exists a e b, map snd h = a ++ e :: b /\ In (EAccept k) a /\ is_log_of (minc c) k t e) /\
  stored now (run c h init) (snd k) = Some (fst k, tmaxl L) /\
  (L = [] -> forall b, b <= indef -> is_pending now (run c h init) (b, snd k) = true) /\
  (forall b, is_pending now (run c h init) (b, snd k) = true <-> b <= tmaxl L) /\
  (L <> [] -> In (tmaxl L) L /\ (forall t, In t L -> rk t <= rk (tmaxl L)) /\
              (Forall (fun t => t <> indef) L -> forall t, In t L -> t <= tmaxl L)) /\
  (forall t, L = [t] -> forall b, is_pending now (run c h init) (b, snd k) = true <-> b <= t).
Proof.
  intros Hne Hacc Hhigh L. destruct (blocking c t0 W h now k Hne Hacc Hhigh) as (B1 & B2 & B3 & B4). fold L in B1, B2, B3, B4.
  split; [intro t; apply log_tvs_char|]. split; [exact B1|]. split; [exact B3|]. split; [exact B2|]. split; [exact B4|].
  intros t E b. rewrite B2, E, tmaxl_single. reflexivity.
Qed.

Lemma expiry_full c h id :
  (forall now b, (forall o, In o h -> snd (ev_key (snd o)) = id -> (fst o + window c < now)%Z) ->
                 is_pending now (run c h init) (b, id) = false) /\
  (forall now b, (forall o k, In o h -> snd o = EAccept k -> snd k <> id) ->
                 is_pending now (run c h init) (b, id) = false) /\
  ((forall now, stored now (run c h init) id = None) \/
   exists v s, (exists o, In o h /\ snd (ev_key (snd o)) = id /\ fst o = s) /\
     (forall now, stored now (run c h init) id = if (s + window c <? now)%Z then None else Some v) /\
     (forall now b, (s + window c < now)%Z -> is_pending now (run c h init) (b, id) = false)).
Proof.
  split; [intros now b H; apply (expired_pending c h now b id H)|].
  split; [intros now b H; apply (never_accepted c h id now b H)|].
  destruct (expiry_last_set c h id) as [H|(v & s & H1 & H2)]; [left; exact H|].
  right. exists v, s. split; [exact H1|]. split; [exact H2|].
  intros now b Hlt. unfold is_pending. cbn [fst snd]. fold (stored now (run c h init) id). rewrite H2.
  destruct (Z.ltb_spec (s + window c) now); [reflexivity | lia].
Qed.

Lemma state_char_full c t0 W h now : no_expiry c t0 W h now ->
  (forall id, stored now (run c h init) id = joinl (id_vals (minc c) (map snd h) id)) /\
  (forall id v, In v (id_vals (minc c) (map snd h) id) <->
     exists x a e b, map snd h = a ++ e :: b /\ eff_at (minc c) a e x /\ snd (e_key x) = id /\ e_val x = v) /\
  (forall id m, stored now (run c h init) id = Some m <-> max_of m (id_vals (minc c) (map snd h) id)) /\
  (forall k, is_pending now (run c h init) k = spec_pending (minc c) (map snd h) k) /\
  (forall k, is_confirmed now (run c h init) k = spec_confirmed (minc c) (map snd h) k).
Proof.
  intro Hne. destruct (state_char c t0 W h now Hne) as (S & P & C).
  split; [exact S|]. split.
  - intros id v. rewrite id_vals_In. split.
    + intros (x & Hx & R). apply effs_char in Hx as (a & e & b & E & H). exists x, a, e, b. tauto.
    + intros (x & a & e & b & E & H & R). exists x. split; [apply effs_char; eauto | exact R].
  - split; [|split; assumption]. intros id m. rewrite S. apply joinl_some.
Qed.

Lemma model_passes c h qt q : check_queries c h qt q (model_ans c h qt q) = true.
Proof. apply model_passes_queries. Qed.
