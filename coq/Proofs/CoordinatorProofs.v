(* Lemmas about Model/Coordinator.v. *)
From Verif Require Import Base.Util Model.Coordinator.
From Coq Require Import ZifyBool ZifyNat ZifyN.
Open Scope Z_scope.

(* ------------------------------------------------------------------ cache *)

Lemma vid_eqb_eq a b : vid_eqb a b = true <-> a = b.
Proof.
  destruct a as [[a1 a2] a3], b as [[b1 b2] b3]; simpl.
  rewrite !andb_true_iff, !N.eqb_eq. split.
  - intros [[-> ->] ->]; reflexivity.
  - intro H; inversion H; auto.
Qed.

Lemma vid_eqb_refl a : vid_eqb a a = true.
Proof. apply vid_eqb_eq; reflexivity. Qed.

Lemma vid_eqb_neq a b : a <> b -> vid_eqb a b = false.
Proof. intro H. destruct (vid_eqb a b) eqn:E; auto. apply vid_eqb_eq in E. contradiction. Qed.

Lemma live_cexp c t0 now : 0 <= t0 -> live now (cexp (c_window c) t0) = within c t0 now.
Proof. intro H. unfold live, cexp, within. destruct (0 <? c_window c) eqn:E; lia. Qed.

Lemma live_mono now now' exp : now <= now' -> live now' exp = true -> live now exp = true.
Proof. unfold live. lia. Qed.

Lemma within_mono c t0 t1 now : t0 <= t1 -> within c t0 now = true -> within c t1 now = true.
Proof. unfold within. lia. Qed.

Lemma within_earlier c t0 now now' : now <= now' -> within c t0 now' = true -> within c t0 now = true.
Proof. unfold within. lia. Qed.

Lemma cget_csetN {A} W t now k k' (v : A) c :
  cget now k' (cset N.eqb W t k v c) = if (k' =? k)%N then (if live now (cexp W t) then Some v else None) else cget now k' c.
Proof. unfold cget, cset. destruct (k' =? k)%N; reflexivity. Qed.

Lemma cget_csetV {A} W t now k k' (v : A) c :
  cget now k' (cset vid_eqb W t k v c) = if vid_eqb k' k then (if live now (cexp W t) then Some v else None) else cget now k' c.
Proof. unfold cget, cset. destruct (vid_eqb k' k); reflexivity. Qed.

Lemma cget_mono {K A} now now' (k : K) (c : cache K A) v :
  now <= now' -> cget now' k c = Some v -> cget now k c = Some v.
Proof.
  unfold cget. intros H. destruct (c k) as [[x e]|]; [|discriminate].
  destruct (live now' e) eqn:L; [|discriminate]. intro Hx. rewrite (live_mono _ _ _ H L). exact Hx.
Qed.

Lemma cget_none_mono {K A} now now' (k : K) (c : cache K A) :
  now <= now' -> cget now k c = None -> cget now' k c = None.
Proof.
  intros H Hn. destruct (cget now' k c) eqn:E; auto.
  rewrite (cget_mono _ _ _ _ _ H E) in Hn. discriminate.
Qed.

Lemma cget_cgc {K A} t now (k : K) (c : cache K A) : t <= now -> cget now k (cgc t c) = cget now k c.
Proof.
  intro H. unfold cget, cgc. destruct (c k) as [[x e]|]; auto.
  destruct (live t e) eqn:L; auto.
  destruct (live now e) eqn:L2; auto. rewrite (live_mono _ _ _ H L2) in L. discriminate.
Qed.

(* ------------------------------------------------------------------ effect of one event *)

Definition vis_mark c t e s := mkS (s_cache s) (cset vid_eqb (c_window c) t (ev_id e) true (s_vis s)).
Definition rec_of (e : event) : entry := mkE (ev_check e) false (ev_type e) (ev_tb e).

Inductive ev_effect (c : ccfg) (t : Z) (s : state) (e : event) : state -> Prop :=
| EffSkip : (confirmed c e = false \/ (exists x, cget t (ev_id e) (s_vis s) = Some x) \/ cget t (ev_w e) (s_cache s) = None) ->
            ev_effect c t s e s
| EffOld v : confirmed c e = true -> cget t (ev_id e) (s_vis s) = None -> cget t (ev_w e) (s_cache s) = Some v ->
             (ev_check e < e_check v)%N -> ev_effect c t s e (vis_mark c t e s)
| EffWrite v : confirmed c e = true -> cget t (ev_id e) (s_vis s) = None -> cget t (ev_w e) (s_cache s) = Some v ->
               (e_check v <= ev_check e)%N -> ev_effect c t s e (put c t (ev_w e) (rec_of e) (vis_mark c t e s)).

Lemma step_event_effect c t s e : ev_effect c t s e (step_event c t s e).
Proof.
  unfold step_event. destruct (ev_conf e <? c_minconf c) eqn:Ec.
  { apply EffSkip. left. unfold confirmed. lia. }
  assert (Hc : confirmed c e = true) by (unfold confirmed; lia).
  destruct (cget t (ev_id e) (s_vis s)) eqn:Ev.
  { apply EffSkip. right. left. eauto. }
  destruct (cget t (ev_w e) (s_cache s)) as [v|] eqn:Er.
  2:{ apply EffSkip. right. right. assumption. }
  destruct (ev_check e =? e_check v)%N eqn:E1.
  { apply N.eqb_eq in E1. replace (mkE (e_check v) false (ev_type e) (ev_tb e)) with (rec_of e)
      by (unfold rec_of; rewrite E1; reflexivity).
    eapply EffWrite; eauto. lia. }
  destruct (e_check v <? ev_check e)%N eqn:E2.
  { eapply EffWrite; eauto. lia. }
  eapply EffOld; eauto. lia.
Qed.

(* ------------------------------------------------------------------ log facts *)

Definition lent_ok (t : Z) (x : lent) : Prop :=
  match x with
  | LAcc t' _ _ _ => 0 <= t' <= t
  | LEv t' _ => 0 <= t' <= t
  | LRestart => True
  end.
Definition log_ok (t : Z) (lg : log) : Prop := Forall (lent_ok t) lg.

Lemma log_ok_mono t t' lg : t <= t' -> log_ok t lg -> log_ok t' lg.
Proof.
  intros H. unfold log_ok. apply Forall_impl. intros [ | | ]; simpl; lia.
Qed.

Definition deliv_ok (c : ccfg) (w : N) (t : Z) (d : deliv) : Prop :=
  0 <= d_t d <= t /\ ev_w (d_ev d) = w /\ confirmed c (d_ev d) = true.

Lemma scan_bounds c w t lg tj b D :
  log_ok t lg -> scan c w lg = Some (tj, b, D) -> 0 <= tj <= t /\ Forall (deliv_ok c w t) D.
Proof.
  revert tj b D. induction lg as [|x lg IH]; intros tj b D Hok Hs; simpl in Hs; [discriminate|].
  inversion Hok as [|? ? Hx Hrest]; subst.
  destruct x as [t' w' b' r | t' e | ]; [| |discriminate].
  - destruct ((w' =? w)%N && r) eqn:E.
    + inversion Hs; subst. split; [exact Hx | constructor].
    + eapply IH; eauto.
  - destruct (scan c w lg) as [[[tj0 b0] D0]|] eqn:Es; [|discriminate].
    destruct (IH _ _ _ Hrest eq_refl) as [H1 H2].
    destruct ((ev_w e =? w)%N && confirmed c e) eqn:E; inversion Hs; subst; split; auto.
    constructor; auto. apply andb_true_iff in E as [E1 E2]. apply N.eqb_eq in E1.
    unfold deliv_ok; simpl. simpl in Hx. auto.
Qed.

Lemma settled_in c tj b D tp e0 :
  settledD c tj b D = Some (tp, e0) -> (b <= ev_check e0)%N /\ exists nw, In (tp, e0, nw) D.
Proof.
  revert tp e0. induction D as [|d D IH]; intros tp e0 H; simpl in H; [discriminate|].
  destruct (b <=? ev_check (d_ev d))%N eqn:Eb.
  - destruct (settledD c tj b D) as [[tp0 e00]|] eqn:Es.
    + destruct (IH _ _ eq_refl) as [H1 [nw H2]].
      destruct (same_ev e00 (d_ev d)); [inversion H; subst; split; auto; exists nw; right; exact H2|].
      destruct (ev_check (d_ev d) <? ev_check e00)%N; [inversion H; subst; split; auto; exists nw; right; exact H2|].
      destruct (d_new d && within c tp0 (d_t d)); [|discriminate]. inversion H; subst.
      split; [lia|]. exists (d_new d). left. destruct d as [[a1 a2] a3]; reflexivity.
    + destruct (dlow b D && d_new d && within c tj (d_t d)); [|discriminate]. inversion H; subst.
      split; [lia|]. exists (d_new d). left. destruct d as [[a1 a2] a3]; reflexivity.
  - destruct (IH _ _ H) as [H1 [nw H2]]. split; auto. exists nw. right. exact H2.
Qed.

Lemma settled_bounds c w t tj b D tp e0 :
  Forall (deliv_ok c w t) D -> settledD c tj b D = Some (tp, e0) ->
  0 <= tp <= t /\ ev_w e0 = w /\ (b <= ev_check e0)%N.
Proof.
  intros HF Hs. destruct (settled_in _ _ _ _ _ _ Hs) as [H1 [nw H2]].
  rewrite Forall_forall in HF. destruct (HF _ H2) as [Ha [Hb Hc]]. simpl in *. auto.
Qed.

Lemma tmax_bound c w t tj D : 0 <= tj <= t -> Forall (deliv_ok c w t) D -> tmax tj D <= t.
Proof.
  intros H HF. destruct D as [|d D]; simpl; [lia|]. inversion HF as [|? ? Hd ?]; subst. destruct Hd; lia.
Qed.

Lemma same_ev_rec e0 e : same_ev e0 e = true -> rec_of e = rec_of e0 /\ ev_id e = ev_id e0.
Proof.
  unfold same_ev. rewrite !andb_true_iff, !N.eqb_eq, vid_eqb_eq. intros [[H1 H2] H3].
  split; auto. unfold rec_of. unfold ev_id in H1. inversion H1. congruence.
Qed.

(* ------------------------------------------------------------------ invariant tying state to log *)

Definition wbody (c : ccfg) (tj : Z) (b : N) (D : list deliv) (now : Z) (cv : option entry) (vv : vid -> option bool) : Prop :=
      (within c tj now = true -> exists v, cv = Some v /\ (b <= e_check v)%N)
   /\ (dlow b D = true -> cv = if within c tj now then Some (mkE b true 0 0) else None)
   /\ (forall v, cv = Some v -> e_pend v = true ->
                 v = mkE b true 0 0 /\ within c tj now = true /\ nonew b D = true)
   /\ (forall tp e0, settledD c tj b D = Some (tp, e0) ->
          cv = (if within c tp now then Some (rec_of e0) else None)
          /\ (within c tp now = true -> vv (ev_id e0) = Some true))
   /\ (0 < c_window c -> tmax tj D + c_window c < now -> cv = None).

Definition InvW (c : ccfg) (t : Z) (s : state) (lg : log) (w : N) : Prop :=
  forall now, t <= now ->
  match scan c w lg with
  | None => cget now w (s_cache s) = None
  | Some (tj, b, D) => wbody c tj b D now (cget now w (s_cache s)) (fun id => cget now id (s_vis s))
  end.

Definition InvV (c : ccfg) (t : Z) (s : state) (lg : log) : Prop :=
  forall id now v, t <= now -> cget now id (s_vis s) = Some v -> delivered c id lg = true.

Definition Inv (c : ccfg) (t : Z) (s : state) (lg : log) : Prop :=
  0 <= t /\ log_ok t lg /\ (forall w, InvW c t s lg w) /\ InvV c t s lg.

Lemma inv_mono c t t' s lg : t <= t' -> Inv c t s lg -> Inv c t' s lg.
Proof.
  intros H [H0 [H1 [H2 H3]]]. split; [lia|]. split; [eapply log_ok_mono; eauto|]. split.
  - intros w now Hn. apply H2. lia.
  - intros id now v Hn. apply H3. lia.
Qed.

Lemma inv_init c : Inv c 0 s0 [].
Proof.
  split; [lia|]. split; [constructor|]. split.
  - intros w now _. simpl. reflexivity.
  - intros id now v _ H. discriminate.
Qed.

Lemma inv_restart c t s lg : Inv c t s lg -> Inv c t s0 (LRestart :: lg).
Proof.
  intros [H0 [H1 _]]. split; [lia|]. split; [constructor; simpl; auto|]. split.
  - intros w now _. simpl. reflexivity.
  - intros id now v _ H. discriminate.
Qed.

Lemma inv_gc c t s lg : Inv c t s lg -> Inv c t (mkS (cgc t (s_cache s)) (cgc t (s_vis s))) lg.
Proof.
  intros [H0 [H1 [H2 H3]]]. split; [lia|]. split; auto. split.
  - intros w now Hn. specialize (H2 w now Hn). simpl.
    rewrite (cget_cgc t now w (s_cache s) Hn).
    destruct (scan c w lg) as [[[tj b] D]|]; auto.
    unfold wbody in *. destruct H2 as (A & B & C & D4 & E). split; [exact A|]. split; [exact B|]. split; [exact C|]. split; [|exact E].
    intros tp e0 Hs. destruct (D4 tp e0 Hs) as [X Y]. split; [exact X|]. intro Hw.
    rewrite (cget_cgc t now (ev_id e0) (s_vis s) Hn). auto.
  - intros id now v Hn. simpl. rewrite (cget_cgc t now id (s_vis s) Hn). apply H3; auto.
Qed.

Lemma invW_put_fresh c t s lg w b :
  0 <= t -> forall now, t <= now ->
  match scan c w (LAcc t w b true :: lg) with
  | None => cget now w (s_cache (put c t w (mkE b true 0 0) s)) = None
  | Some (tj, b0, D) => wbody c tj b0 D now (cget now w (s_cache (put c t w (mkE b true 0 0) s)))
                              (fun id => cget now id (s_vis (put c t w (mkE b true 0 0) s)))
  end.
Proof.
  intros H0 now Hn. simpl. rewrite N.eqb_refl. simpl. unfold wbody.
  rewrite cget_csetN, N.eqb_refl, (live_cexp c t now H0).
  split; [|split; [|split; [|split]]].
  - intros Hw. rewrite Hw. eexists; split; [reflexivity|simpl; lia].
  - intros _. reflexivity.
  - intros v Hv Hp. destruct (within c t now); [|discriminate]. inversion Hv; subst. auto.
  - intros tp e0 Hs. discriminate.
  - intros HW Hlt. simpl in Hlt. unfold within. replace (c_window c <=? 0) with false by lia.
    replace (now <=? t + c_window c) with false by lia. reflexivity.
Qed.

Lemma inv_accept c t s lg w b :
  Inv c t s lg -> Inv c t (fst (accept c t w b s)) (LAcc t w b (snd (accept c t w b s)) :: lg).
Proof.
  intros [H0 [H1 [H2 H3]]].
  assert (Hok : log_ok t (LAcc t w b (snd (accept c t w b s)) :: lg)).
  { constructor; auto. simpl. lia. }
  assert (Hfresh : Inv c t (put c t w (mkE b true 0 0) s) (LAcc t w b true :: lg)).
  { split; [lia|]. split; [constructor; auto; simpl; lia|]. split.
    - intros w'. destruct (N.eq_dec w' w) as [->|Hne].
      + intros now Hn. apply invW_put_fresh; auto.
      + intros now Hn. specialize (H2 w' now Hn). simpl.
        assert (E : (w =? w')%N = false) by (apply N.eqb_neq; congruence). rewrite E. simpl.
        rewrite cget_csetN. assert (E' : (w' =? w)%N = false) by (apply N.eqb_neq; congruence). rewrite E'.
        exact H2.
    - intros id now v Hn Hv. simpl in *. eapply H3; eauto. }
  unfold accept. destruct (cget t w (s_cache s)) as [v|] eqn:Ev.
  - destruct (e_check v <? b)%N eqn:Eb; simpl.
    + exact Hfresh.
    + split; [lia|]. split; [constructor; auto; simpl; lia|]. split.
      * intros w' now Hn. specialize (H2 w' now Hn). simpl. rewrite andb_false_r. exact H2.
      * intros id now v' Hn Hv. simpl. eapply H3; eauto.
  - simpl. exact Hfresh.
Qed.

Lemma view_other c t s e s' w :
  ev_effect c t s e s' -> w <> ev_w e ->
  (forall now, cget now w (s_cache s') = cget now w (s_cache s))
  /\ (forall now id, fst (fst id) = w -> cget now id (s_vis s') = cget now id (s_vis s)).
Proof.
  intros Heff Hne.
  assert (Hid : forall id, fst (fst id) = w -> vid_eqb id (ev_id e) = false).
  { intros [[a1 a2] a3] Hf. simpl in Hf. subst a1. apply vid_eqb_neq. unfold ev_id. congruence. }
  assert (En : (w =? ev_w e)%N = false) by (apply N.eqb_neq; exact Hne).
  inversion Heff; subst; simpl.
  - split; auto.
  - split; auto. intros now id Hf. rewrite cget_csetV, (Hid id Hf). reflexivity.
  - split.
    + intros now. rewrite cget_csetN, En. reflexivity.
    + intros now id Hf. rewrite cget_csetV, (Hid id Hf). reflexivity.
Qed.

Lemma touch_scan c w lg :
  touch c w lg = match scan c w lg with None => None | Some (tj, _, D) => Some (tmax tj D) end.
Proof.
  induction lg as [|x lg IH]; simpl; auto.
  destruct x as [t' w' b' r | t' e | ]; auto.
  - destruct ((w' =? w)%N && r); auto.
  - rewrite IH. destruct (scan c w lg) as [[[tj b] D]|]; auto.
    destruct ((ev_w e =? w)%N && confirmed c e); auto.
Qed.

(* a record that is found was not certainly absent *)
Lemma found_not_absent c t s lg w v :
  InvW c t s lg w -> cget t w (s_cache s) = Some v -> absent c lg t w = false.
Proof.
  intros HW Hv. specialize (HW t (Z.le_refl t)). unfold absent. rewrite touch_scan.
  destruct (scan c w lg) as [[[tj b] D]|]; [|congruence].
  destruct HW as (_ & _ & _ & _ & E).
  destruct ((0 <? c_window c) && (tmax tj D + c_window c <? t)) eqn:Ex; auto.
  rewrite E in Hv; [discriminate | lia | lia].
Qed.

Lemma inv_event_V c t s lg e s' :
  ev_effect c t s e s' -> InvW c t s lg (ev_w e) -> InvV c t s lg -> InvV c t s' (LEv t e :: lg).
Proof.
  intros Heff HW H3 id now v Hn Hv. cbn [delivered].
  inversion Heff; subst.
  - rewrite (H3 id now v Hn Hv). apply orb_true_r.
  - simpl in Hv. rewrite cget_csetV in Hv. destruct (vid_eqb id (ev_id e)) eqn:E.
    + apply vid_eqb_eq in E. subst id. rewrite H, vid_eqb_refl, (found_not_absent _ _ _ _ _ _ HW H1). reflexivity.
    + rewrite (H3 id now v Hn Hv). apply orb_true_r.
  - simpl in Hv. rewrite cget_csetV in Hv. destruct (vid_eqb id (ev_id e)) eqn:E.
    + apply vid_eqb_eq in E. subst id. rewrite H, vid_eqb_refl, (found_not_absent _ _ _ _ _ _ HW H1). reflexivity.
    + rewrite (H3 id now v Hn Hv). apply orb_true_r.
Qed.

Lemma inv_event_same c t s lg e s' tj b D :
  0 <= t -> ev_effect c t s e s' -> confirmed c e = true ->
  scan c (ev_w e) lg = Some (tj, b, D) -> 0 <= tj <= t -> Forall (deliv_ok c (ev_w e) t) D ->
  InvW c t s lg (ev_w e) -> InvV c t s lg ->
  forall now, t <= now ->
  wbody c tj b ((t, e, negb (delivered c (ev_id e) lg)) :: D) now
        (cget now (ev_w e) (s_cache s')) (fun id => cget now id (s_vis s')).
Proof.
  intros H0 Heff Hconf Es Htj HD IHw H3 now Hn.
  unfold InvW in IHw. rewrite Es in IHw.
  set (nw := negb (delivered c (ev_id e) lg)).
  assert (Fnw : nw = true -> cget t (ev_id e) (s_vis s) = None).
  { intro Hnw. destruct (cget t (ev_id e) (s_vis s)) eqn:E; auto.
    assert (Hd := H3 _ t _ (Z.le_refl t) E). unfold nw in Hnw. rewrite Hd in Hnw. discriminate. }
  assert (Htm : tmax tj D <= t) by (eapply tmax_bound; eauto).
  pose proof (IHw t (Z.le_refl t)) as IHt. pose proof (IHw now Hn) as IHn.
  unfold wbody in IHt, IHn.
  destruct IHt as (At & Bt & Ct & D4t & Et). destruct IHn as (A & B & C & D4 & E).
  unfold wbody.
  assert (Hlive : forall x, live x (cexp (c_window c) t) = within c t x) by (intro; apply live_cexp; auto).
  inversion Heff as [Hskip | v Hc Hv Hr Hlt | v Hc Hv Hr Hle]; subst s'.
  - (* skipped *)
    destruct Hskip as [Hx | [[x Hx] | Hx]]; [congruence | |].
    + (* visited *)
      split; [exact A|]. split.
      { intro Hd. simpl in Hd. apply andb_true_iff in Hd as [_ Hd]. exact (B Hd). }
      split.
      { intros v Hv Hp. destruct (C v Hv Hp) as (C1 & C2 & C3). split; [exact C1|]. split; [exact C2|].
        simpl. rewrite C3, andb_true_r. unfold d_new, d_ev; simpl.
        destruct nw eqn:En; simpl; auto. rewrite (Fnw eq_refl) in Hx. discriminate. }
      split.
      { intros tp e0 Hs. simpl in Hs. unfold d_ev, d_t, d_new in Hs; simpl in Hs.
        destruct (b <=? ev_check e)%N eqn:Eb.
        - destruct (settledD c tj b D) as [[tp0 e00]|] eqn:Es0.
          + destruct (same_ev e00 e); [inversion Hs; subst; exact (D4 _ _ eq_refl)|].
            destruct (ev_check e <? ev_check e00)%N; [inversion Hs; subst; exact (D4 _ _ eq_refl)|].
            destruct (nw && within c tp0 t) eqn:Econd; [|discriminate].
            apply andb_true_iff in Econd as [Enw _]. rewrite (Fnw Enw) in Hx. discriminate.
          + destruct (dlow b D && nw && within c tj t) eqn:Econd; [|discriminate].
            apply andb_true_iff in Econd as [Econd _]. apply andb_true_iff in Econd as [_ Enw].
            rewrite (Fnw Enw) in Hx. discriminate.
        - exact (D4 _ _ Hs). }
      { intros HW Hl. unfold tmax, d_t in Hl; simpl in Hl. apply E; auto. lia. }
    + (* no live record *)
      split; [exact A|]. split.
      { intro Hd. simpl in Hd. apply andb_true_iff in Hd as [_ Hd]. exact (B Hd). }
      split.
      { intros v Hv Hp. rewrite (cget_mono _ _ _ _ _ Hn Hv) in Hx. discriminate. }
      split.
      { intros tp e0 Hs. simpl in Hs. unfold d_ev, d_t, d_new in Hs; simpl in Hs.
        destruct (b <=? ev_check e)%N eqn:Eb.
        - destruct (settledD c tj b D) as [[tp0 e00]|] eqn:Es0.
          + destruct (same_ev e00 e); [inversion Hs; subst; exact (D4 _ _ eq_refl)|].
            destruct (ev_check e <? ev_check e00)%N; [inversion Hs; subst; exact (D4 _ _ eq_refl)|].
            destruct (nw && within c tp0 t) eqn:Econd; [|discriminate].
            apply andb_true_iff in Econd as [_ Ew]. destruct (D4t _ _ eq_refl) as [X _]. rewrite Ew, Hx in X. discriminate.
          + destruct (dlow b D && nw && within c tj t) eqn:Econd; [|discriminate].
            apply andb_true_iff in Econd as [Econd Ew]. apply andb_true_iff in Econd as [Edl _].
            rewrite (Bt Edl), Ew in Hx. discriminate.
        - exact (D4 _ _ Hs). }
      { intros HW Hl. unfold tmax, d_t in Hl; simpl in Hl. apply E; auto. lia. }
  - (* old event: only the visited set changes *)
    simpl s_cache. simpl s_vis.
    split; [exact A|]. split.
    { intro Hd. simpl in Hd. apply andb_true_iff in Hd as [_ Hd]. exact (B Hd). }
    split.
    { intros v0 Hv0 Hp. destruct (C v0 Hv0 Hp) as (C1 & C2 & C3). split; [exact C1|]. split; [exact C2|].
      simpl. rewrite C3, andb_true_r. unfold d_new, d_ev; simpl.
      destruct (b <=? ev_check e)%N eqn:Eb; [|rewrite andb_false_r; reflexivity].
      exfalso. rewrite (cget_mono _ _ _ _ _ Hn Hv0) in Hr. inversion Hr; subst v. subst v0. simpl in Hlt. lia. }
    split.
    { intros tp e0 Hs. simpl in Hs. unfold d_ev, d_t, d_new in Hs; simpl in Hs.
      destruct (b <=? ev_check e)%N eqn:Eb.
      - destruct (settledD c tj b D) as [[tp0 e00]|] eqn:Es0.
        + destruct (same_ev e00 e) eqn:Esame.
          * exfalso. destruct (D4t _ _ eq_refl) as [X _]. rewrite Hr in X.
            destruct (within c tp0 t); [|discriminate]. inversion X; subst v.
            apply same_ev_rec in Esame as [Erec _]. unfold rec_of in Erec. inversion Erec. simpl in Hlt. lia.
          * destruct (ev_check e <? ev_check e00)%N eqn:Elow.
            -- inversion Hs; subst tp e0. destruct (D4 _ _ eq_refl) as [X Y]. split; [exact X|]. intro Hw.
               rewrite cget_csetV. destruct (vid_eqb (ev_id e00) (ev_id e)); [|auto].
               rewrite Hlive. destruct (settled_bounds _ _ _ _ _ _ _ _ HD Es0) as [Htp _].
               rewrite (within_mono c tp0 t now); auto. lia.
            -- exfalso. destruct (nw && within c tp0 t) eqn:Econd; [|discriminate].
               apply andb_true_iff in Econd as [_ Ew]. destruct (D4t _ _ eq_refl) as [X _]. rewrite Ew, Hr in X.
               inversion X; subst v. simpl in Hlt. lia.
        + exfalso. destruct (dlow b D && nw && within c tj t) eqn:Econd; [|discriminate].
          apply andb_true_iff in Econd as [Econd Ew]. apply andb_true_iff in Econd as [Edl _].
          rewrite (Bt Edl), Ew in Hr. inversion Hr; subst v. simpl in Hlt. lia.
      - destruct (D4 _ _ Hs) as [X Y]. split; [exact X|]. intro Hw.
        rewrite cget_csetV. destruct (vid_eqb (ev_id e0) (ev_id e)); [|auto].
        rewrite Hlive. destruct (settled_bounds _ _ _ _ _ _ _ _ HD Hs) as [Htp _].
        rewrite (within_mono c tp t now); auto. lia. }
    { intros HW Hl. unfold tmax, d_t in Hl; simpl in Hl. apply E; auto. lia. }
  - (* the event is written *)
    simpl s_cache. simpl s_vis. rewrite cget_csetN, N.eqb_refl, Hlive.
    split.
    { intros Hw. rewrite (within_mono c tj t now) by (auto; lia). eexists; split; [reflexivity|].
      simpl. destruct (At (within_earlier _ _ _ _ Hn Hw)) as [v0 [Hv0 Hb0]]. rewrite Hr in Hv0. inversion Hv0; subst. lia. }
    split.
    { intro Hd. exfalso. simpl in Hd. apply andb_true_iff in Hd as [Hd1 Hd]. unfold d_ev in Hd1; simpl in Hd1.
      rewrite (Bt Hd) in Hr. destruct (within c tj t); [|discriminate]. inversion Hr; subst v. simpl in Hle. lia. }
    split.
    { intros v0 Hv0 Hp. destruct (within c t now); [|discriminate]. inversion Hv0; subst v0. simpl in Hp. discriminate. }
    split.
    { intros tp e0 Hs. simpl in Hs. unfold d_ev, d_t, d_new in Hs; simpl in Hs.
      destruct (b <=? ev_check e)%N eqn:Eb.
      - destruct (settledD c tj b D) as [[tp0 e00]|] eqn:Es0.
        + destruct (same_ev e00 e) eqn:Esame.
          * exfalso. destruct (D4t _ _ eq_refl) as [X Y]. rewrite Hr in X.
            destruct (within c tp0 t); [|discriminate].
            apply same_ev_rec in Esame as [_ Eid]. rewrite Eid in Hv. rewrite (Y eq_refl) in Hv. discriminate.
          * destruct (ev_check e <? ev_check e00)%N eqn:Elow.
            -- exfalso. destruct (D4t _ _ eq_refl) as [X _]. rewrite Hr in X.
               destruct (within c tp0 t); [|discriminate]. inversion X; subst v. simpl in Hle. lia.
            -- destruct (nw && within c tp0 t) eqn:Econd; [|discriminate]. inversion Hs; subst tp e0.
               split; [reflexivity|]. intro Hw. rewrite cget_csetV, vid_eqb_refl, Hlive, Hw. reflexivity.
        + destruct (dlow b D && nw && within c tj t) eqn:Econd; [|discriminate]. inversion Hs; subst tp e0.
          split; [reflexivity|]. intro Hw. rewrite cget_csetV, vid_eqb_refl, Hlive, Hw. reflexivity.
      - exfalso. destruct (D4t _ _ Hs) as [X _]. rewrite Hr in X.
        destruct (within c tp t); [|discriminate]. inversion X; subst v.
        destruct (settled_bounds _ _ _ _ _ _ _ _ HD Hs) as (_ & _ & Hhi). simpl in Hle. lia. }
    { intros HW Hl. unfold tmax, d_t in Hl; simpl in Hl. unfold within. replace (c_window c <=? 0) with false by lia.
      replace (now <=? t + c_window c) with false by lia. reflexivity. }
Qed.

Lemma inv_event c t s lg e : Inv c t s lg -> Inv c t (step_event c t s e) (LEv t e :: lg).
Proof.
  intros [H0 [H1 [H2 H3]]].
  pose proof (step_event_effect c t s e) as Heff. remember (step_event c t s e) as s' eqn:Es'. clear Es'.
  split; [lia|]. split; [constructor; auto; simpl; lia|]. split; [|eapply inv_event_V; eauto].
  intros w now Hn. cbn [scan].
  pose proof (H2 w) as IHw.
  destruct (scan c w lg) as [[[tj b] D]|] eqn:Es.
  - destruct (scan_bounds _ _ _ _ _ _ _ H1 Es) as [Htj HD].
    destruct ((ev_w e =? w)%N && confirmed c e) eqn:Ec.
    + apply andb_true_iff in Ec as [Ew Ec]. apply N.eqb_eq in Ew. subst w.
      eapply inv_event_same; eauto.
    + destruct (N.eq_dec w (ev_w e)) as [->|Hne].
      * rewrite N.eqb_refl in Ec. simpl in Ec.
        inversion Heff; subst; try congruence.
        unfold InvW in IHw. rewrite Es in IHw. apply IHw; auto.
      * destruct (view_other _ _ _ _ _ _ Heff Hne) as [Vc Vv].
        unfold InvW in IHw. rewrite Es in IHw. specialize (IHw now Hn). unfold wbody in *.
        rewrite Vc. destruct IHw as (A & B & C & D4 & E).
        split; [exact A|]. split; [exact B|]. split; [exact C|]. split; [|exact E].
        intros tp e0 Hs. destruct (D4 _ _ Hs) as [X Y]. split; [exact X|]. intro Hw.
        rewrite Vv; auto. destruct (settled_bounds _ _ _ _ _ _ _ _ HD Hs) as (_ & Hw0 & _).
        unfold ev_id; simpl. exact Hw0.
  - unfold InvW in IHw. rewrite Es in IHw.
    inversion Heff as [Hskip | v Hc Hv Hr Hlt | v Hc Hv Hr Hle]; subst s'; simpl s_cache.
    + apply IHw; auto.
    + apply IHw; auto.
    + rewrite cget_csetN. destruct (w =? ev_w e)%N eqn:Ew.
      * apply N.eqb_eq in Ew. subst w. rewrite (IHw t (Z.le_refl t)) in Hr. discriminate.
      * apply IHw; auto.
Qed.

Lemma inv_events c t evs : forall s lg, Inv c t s lg ->
  Inv c t (check_events c t evs s) (fold_left (fun l e => LEv t e :: l) evs lg).
Proof.
  unfold check_events. induction evs as [|e evs IH]; intros s lg H; simpl; auto.
  apply IH. apply inv_event. exact H.
Qed.

(* ------------------------------------------------------------------ what the log determines is what the state holds *)

Lemma known_correct c t s lg w k :
  Inv c t s lg -> known c lg t w = Some k -> cget t w (s_cache s) = k.
Proof.
  intros [H0 [H1 [H2 H3]]] Hk. unfold known in Hk.
  specialize (H2 w t (Z.le_refl t)).
  destruct (scan c w lg) as [[[tj b] D]|] eqn:Es.
  - unfold wbody in H2. destruct H2 as (A & B & C & D4 & E).
    destruct (dlow b D) eqn:Ed.
    + inversion Hk; subst. apply B; reflexivity.
    + destruct (settledD c tj b D) as [[tp e0]|] eqn:Ess.
      * inversion Hk; subst. destruct (D4 _ _ eq_refl) as [X _]. exact X.
      * destruct ((0 <? c_window c) && (tmax tj D + c_window c <? t)) eqn:Ex; [|discriminate].
        inversion Hk; subst. apply E; lia.
  - inversion Hk; subst. exact H2.
Qed.

Lemma acc_rule_of r b : acc_rule r b (match r with None => true | Some v => (e_check v <? b)%N end).
Proof. destruct r; simpl; reflexivity. Qed.

Lemma accept_snd c t w b s :
  snd (accept c t w b s) = match cget t w (s_cache s) with None => true | Some v => (e_check v <? b)%N end.
Proof. unfold accept. destruct (cget t w (s_cache s)) as [v|]; auto. destruct (e_check v <? b)%N; auto. Qed.

Lemma model_accept_ok c t s lg w b :
  Inv c t s lg -> judge_acceptP c lg t w b (snd (accept c t w b s)).
Proof.
  intros HI. rewrite accept_snd. split.
  - intros Hr tj bj D Es Hw. destruct HI as [H0 [H1 [H2 H3]]].
    specialize (H2 w t (Z.le_refl t)). rewrite Es in H2. destruct H2 as (A & _).
    destruct (A Hw) as [v [Hv Hb]]. rewrite Hv in Hr. lia.
  - intros k Hk. rewrite (known_correct _ _ _ _ _ _ HI Hk). apply acc_rule_of.
Qed.

Lemma st_rule_of r b : st_rule r b (st_of r b).
Proof.
  destruct r as [v|]; simpl; auto.
  destruct (b <? e_check v)%N eqn:E1; destruct (b =? e_check v)%N eqn:E2; simpl; auto; lia.
Qed.

Lemma model_transmit_ok c t s lg w b :
  Inv c t s lg -> judge_transmitP c lg t w b (should_transmit t w b s).
Proof.
  intros HI. unfold should_transmit. split.
  - intros Hr. destruct HI as [H0 [H1 [H2 H3]]].
    specialize (H2 w t (Z.le_refl t)).
    destruct (cget t w (s_cache s)) as [v|] eqn:Ev; [|discriminate].
    simpl in Hr. destruct (b <? e_check v)%N eqn:E1; [discriminate|].
    destruct (b =? e_check v)%N eqn:E2; [|discriminate].
    destruct (scan c w lg) as [[[tj b'] D]|] eqn:Es; [|discriminate].
    destruct H2 as (_ & _ & C & _). destruct (C v eq_refl Hr) as (C1 & C2 & C3).
    subst v. simpl in E2. apply N.eqb_eq in E2. subst b'. eauto.
  - intros k Hk. rewrite (known_correct _ _ _ _ _ _ HI Hk). apply st_rule_of.
Qed.

Lemma sp_rule_of r ut blk : sp_rule r ut blk (sp_of r ut blk).
Proof.
  destruct r as [v|]; simpl; auto. unfold UT_LOG, UT_COND, PERFORM.
  destruct (e_pend v); [repeat split; intros; try discriminate; auto|].
  repeat split; intros; try discriminate.
  - subst ut. rewrite H0. reflexivity.
  - subst ut. simpl. rewrite H0. reflexivity.
  - destruct H1 as [-> | ->]; simpl; destruct (e_tt v =? 1)%N eqn:E; auto; lia.
Qed.

Lemma fp_rule_of r ut : fp_rule r ut (fp_of r ut).
Proof.
  destruct r as [v|]; simpl; auto. unfold UT_LOG, PERFORM.
  destruct (e_pend v); [repeat split; intros; try discriminate; auto|].
  repeat split; intros; try discriminate.
  - subst ut. rewrite H0. reflexivity.
  - destruct (ut =? 1)%N eqn:E1; destruct (e_tt v =? 1)%N eqn:E2; simpl; auto. lia.
Qed.

(* ------------------------------------------------------------------ reports and filters *)

Lemma existsb_id_In rs : existsb (fun x : bool => x) rs = true <-> In true rs.
Proof.
  rewrite existsb_exists. split.
  - intros [x [Hx Hb]]. subst. exact Hx.
  - intro H. exists true. auto.
Qed.

Lemma accept_all_ok c t l : forall s lg, Inv c t s lg ->
  judge_accsP c lg t l (snd (accept_all c t l s))
  /\ Inv c t (fst (accept_all c t l s)) (log_accs t l (snd (accept_all c t l s)) lg).
Proof.
  induction l as [|[w b] l IH]; intros s lg HI; simpl.
  - split; auto.
  - pose proof (model_accept_ok c t s lg w b HI) as Hj.
    pose proof (inv_accept c t s lg w b HI) as HI'.
    destruct (accept c t w b s) as [s1 r] eqn:Ea. simpl in Hj, HI'.
    destruct (IH s1 _ HI') as [Hj' HI''].
    destruct (accept_all c t l s1) as [s2 rs] eqn:Eb. simpl in *. auto.
Qed.

Lemma transmit_all_ok c t s lg l : Inv c t s lg ->
  judge_trsP c lg t l (map (fun '(w, b) => should_transmit t w b s) l).
Proof.
  intro HI. induction l as [|[w b] l IH]; simpl; auto. split; auto. apply model_transmit_ok; auto.
Qed.

Lemma filter_select (f : item -> bool) l : filter f l = select (map f l) l.
Proof. induction l as [|x l IH]; simpl; auto. destruct (f x); rewrite IH; reflexivity. Qed.

Lemma nth_error_map_inv {A B} (f : A -> B) l n y :
  nth_error (map f l) n = Some y -> exists x, nth_error l n = Some x /\ y = f x.
Proof.
  revert n. induction l as [|a l IH]; intros [|n] H; simpl in *; try discriminate.
  - inversion H. eauto.
  - apply IH; auto.
Qed.

(* ------------------------------------------------------------------ one step of the model *)

Definition mlog (c : ccfg) (s : state) (lg : log) (t : Z) (o : op) : log := log_step lg t o (snd (step c s t o)).

Lemma step_inv c t s lg o : Inv c t s lg -> Inv c t (fst (step c s t o)) (mlog c s lg t o).
Proof.
  intro HI. unfold mlog. destruct o; simpl; auto.
  - pose proof (inv_accept c t s lg w b HI) as H. destruct (accept c t w b s); exact H.
  - apply inv_events; auto.
  - destruct (accept_all_ok c t l s lg HI) as [_ H]. destruct (accept_all c t l s); exact H.
  - apply inv_gc; auto.
  - eapply inv_restart; eauto.
Qed.

Lemma step_judge06 c t s lg o : Inv c t s lg -> judge06P c lg t o (snd (step c s t o)).
Proof.
  intro HI. destruct o; simpl; auto.
  - pose proof (model_accept_ok c t s lg w b HI) as H. destruct (accept c t w b s); exact H.
  - apply model_transmit_ok; auto.
  - destruct (accept_all_ok c t l s lg HI) as [H _]. destruct (accept_all c t l s) as [s' rs]; simpl in *.
    split; [apply existsb_id_In | exact H].
  - split; [apply existsb_id_In | apply transmit_all_ok; auto].
Qed.

Lemma step_judge07 c t s lg o : Inv c t s lg -> judge07P c lg t o (snd (step c s t o)).
Proof.
  intro HI. destruct o; simpl; auto.
  - intros k Hk. unfold should_process. rewrite (known_correct _ _ _ _ _ _ HI Hk). apply sp_rule_of.
  - exists (map (fun i => should_process t i s) l). split; [apply map_length|]. split; [apply filter_select|].
    intros n i m k Hi Hm Hk. apply nth_error_map_inv in Hm as [x [Hx ->]]. rewrite Hi in Hx. inversion Hx; subst x.
    unfold should_process. rewrite (known_correct _ _ _ _ _ _ HI Hk). apply sp_rule_of.
  - exists (map (fun i => should_process t i s) l). split; [apply map_length|]. split; [apply filter_select|].
    intros n i m k Hi Hm Hk. apply nth_error_map_inv in Hm as [x [Hx ->]]. rewrite Hi in Hx. inversion Hx; subst x.
    unfold should_process. rewrite (known_correct _ _ _ _ _ _ HI Hk). apply sp_rule_of.
  - exists (map (fun i => keep_proposal t i s) l). split; [apply map_length|]. split; [apply filter_select|].
    intros n i m k Hi Hm Hk. apply nth_error_map_inv in Hm as [x [Hx ->]]. rewrite Hi in Hx. inversion Hx; subst x.
    unfold keep_proposal. rewrite (known_correct _ _ _ _ _ _ HI Hk). apply fp_rule_of.
Qed.

Lemma model_spec_from (J : ccfg -> log -> Z -> op -> ret -> Prop) c :
  (forall t s lg o, Inv c t s lg -> J c lg t o (snd (step c s t o))) ->
  forall h s lg t0, Inv c t0 s lg -> times_from t0 h -> spec_from (J c) lg (zip3 h (run_from c s h)).
Proof.
  intros HJ. induction h as [|[t o] h IH]; intros s lg t0 HI Ht; simpl; auto.
  destruct Ht as [Hle Ht]. pose proof (inv_mono _ _ _ _ _ Hle HI) as HI'.
  pose proof (HJ t s lg o HI') as Hj. pose proof (step_inv c t s lg o HI') as Hs. unfold mlog in Hs.
  destruct (step c s t o) as [s' r]. simpl in *. split; auto. eapply IH; eauto.
Qed.

Lemma model_C06_spec c h : wf_times h -> C06_spec c (zip3 h (run c h)).
Proof. intro H. apply (model_spec_from judge06P c (step_judge06 c) h s0 [] 0 (inv_init c) H). Qed.

Lemma model_C07_spec c h : wf_times h -> C07_spec c (zip3 h (run c h)).
Proof. intro H. apply (model_spec_from judge07P c (step_judge07 c) h s0 [] 0 (inv_init c) H). Qed.

(* ------------------------------------------------------------------ checker K is sound *)

Lemma st_chk_sound k b r : st_chk k b r = true -> st_rule k b r.
Proof. destruct k as [v|]; simpl; [intro H; apply eqb_prop in H; exact H | destruct r; auto; discriminate]. Qed.

Lemma acc_chk_sound k b r : acc_chk k b r = true -> acc_rule k b r.
Proof. destruct k as [v|]; simpl; [intro H; apply eqb_prop in H; exact H | auto]. Qed.

Lemma judge_transmit_sound c lg t w b r : judge_transmit c lg t w b r = true -> judge_transmitP c lg t w b r.
Proof.
  unfold judge_transmit. intro H. apply andb_true_iff in H as [H1 H2]. split.
  - intro Hr. subst r. destruct (scan c w lg) as [[[tj b'] D]|]; [|discriminate].
    apply andb_true_iff in H1 as [H1 H3]. apply andb_true_iff in H1 as [H1 H4].
    apply N.eqb_eq in H1. subst b'. eauto.
  - intros k Hk. rewrite Hk in H2. apply st_chk_sound; auto.
Qed.

Lemma judge_accept_sound c lg t w b r : judge_accept c lg t w b r = true -> judge_acceptP c lg t w b r.
Proof.
  unfold judge_accept. intro H. apply andb_true_iff in H as [H1 H2]. split.
  - intros Hr tj bj D Es Hw. subst r. rewrite Es, Hw in H1. lia.
  - intros k Hk. rewrite Hk in H2. apply acc_chk_sound; auto.
Qed.

Lemma judge_accs_sound c t l : forall lg rs, judge_accs c lg t l rs = true -> judge_accsP c lg t l rs.
Proof.
  induction l as [|[w b] l IH]; intros lg [|r rs] H; simpl in *; auto; try discriminate.
  apply andb_true_iff in H as [H1 H2]. split; [apply judge_accept_sound; auto | apply IH; auto].
Qed.

Lemma judge_trs_sound c t lg l : forall rs, judge_trs c lg t l rs = true -> judge_trsP c lg t l rs.
Proof.
  induction l as [|[w b] l IH]; intros [|r rs] H; simpl in *; auto; try discriminate.
  apply andb_true_iff in H as [H1 H2]. split; [apply judge_transmit_sound; auto | apply IH; auto].
Qed.

Lemma eqb_existsb_In x rs : Bool.eqb x (existsb (fun y : bool => y) rs) = true -> (x = true <-> In true rs).
Proof. intro H. apply eqb_prop in H. subst x. apply existsb_id_In. Qed.

Lemma judge06_sound c lg t o r : judge06 c lg t o r = true -> judge06P c lg t o r.
Proof.
  destruct o, r; simpl; intro H; auto; try discriminate.
  - apply judge_accept_sound; auto.
  - apply judge_transmit_sound; auto.
  - apply andb_true_iff in H as [H1 H2]. split; [apply eqb_existsb_In; auto | apply judge_accs_sound; auto].
  - apply andb_true_iff in H as [H1 H2]. split; [apply eqb_existsb_In; auto | apply judge_trs_sound; auto].
Qed.

Lemma item_eqb_eq a b : item_eqb a b = true -> a = b.
Proof.
  destruct a as [[a1 a2] a3], b as [[b1 b2] b3]. unfold item_eqb, it_w, it_ut, it_blk; simpl.
  rewrite !andb_true_iff, !N.eqb_eq. intros [[-> ->] ->]. reflexivity.
Qed.

Lemma filt_ok_sound dec l : forall out, filt_ok dec l out = true ->
  exists mask, length mask = length l /\ out = select mask l
    /\ forall n i m, nth_error l n = Some i -> nth_error mask n = Some m ->
                     match dec i with Some d => m = d | None => True end.
Proof.
  induction l as [|x l IH]; intros out H; simpl in H.
  - destruct out; [|discriminate]. exists []. repeat split; auto. intros [|n]; discriminate.
  - assert (Htake : (match out with y :: out' => item_eqb x y && filt_ok dec l out' | [] => false end) = true ->
             (dec x = Some false -> False) ->
             exists mask, length mask = length (x :: l) /\ out = select mask (x :: l)
               /\ forall n i m, nth_error (x :: l) n = Some i -> nth_error mask n = Some m ->
                                match dec i with Some d => m = d | None => True end).
    { intros Ht Hnf. destruct out as [|y out']; [discriminate|]. apply andb_true_iff in Ht as [He Ht].
      apply item_eqb_eq in He. subst y. destruct (IH _ Ht) as [mask [Hl [Hs Hm]]].
      exists (true :: mask). simpl. split; [congruence|]. split; [congruence|].
      intros [|n] i m Hi Hmm; simpl in *.
      - inversion Hi; inversion Hmm; subst. destruct (dec i) as [[|]|]; auto; exfalso; auto.
      - eapply Hm; eauto. }
    assert (Hdrop : filt_ok dec l out = true -> (dec x = Some true -> False) ->
             exists mask, length mask = length (x :: l) /\ out = select mask (x :: l)
               /\ forall n i m, nth_error (x :: l) n = Some i -> nth_error mask n = Some m ->
                                match dec i with Some d => m = d | None => True end).
    { intros Hd Hnt. destruct (IH _ Hd) as [mask [Hl [Hs Hm]]].
      exists (false :: mask). simpl. split; [congruence|]. split; [exact Hs|].
      intros [|n] i m Hi Hmm; simpl in *.
      - inversion Hi; inversion Hmm; subst. destruct (dec i) as [[|]|]; auto; exfalso; auto.
      - eapply Hm; eauto. }
    destruct (dec x) as [[|]|] eqn:Ed.
    + apply Htake; auto. discriminate.
    + apply Hdrop; auto. discriminate.
    + apply orb_true_iff in H as [H|H]; [apply Htake | apply Hdrop]; auto; discriminate.
Qed.

Lemma sp_dec_rule c lg t i k m :
  known c lg t (it_w i) = Some k -> match sp_dec c lg t i with Some d => m = d | None => True end ->
  sp_rule k (it_ut i) (it_blk i) m.
Proof.
  unfold sp_dec. intros Hk. rewrite Hk. destruct k as [v|]; simpl; [|auto].
  unfold UT_LOG, UT_COND, PERFORM.
  destruct (e_pend v) eqn:Ep.
  { intros ->. repeat split; intros; try discriminate; auto. }
  destruct (e_tt v =? 1)%N eqn:Et.
  - destruct (it_ut i =? 1)%N eqn:E1; [|destruct (it_ut i =? 0)%N eqn:E0]; intro Hm; subst;
      repeat split; intros; try discriminate; auto; try lia.
  - destruct ((it_ut i =? 1)%N || (it_ut i =? 0)%N) eqn:E1; intro Hm; subst;
      repeat split; intros; try discriminate; auto; try lia.
Qed.

Lemma fp_dec_rule c lg t i k m :
  known c lg t (it_w i) = Some k -> match fp_dec c lg t i with Some d => m = d | None => True end ->
  fp_rule k (it_ut i) m.
Proof.
  unfold fp_dec. intros Hk. rewrite Hk. destruct k as [v|]; simpl; [|auto].
  unfold UT_LOG, PERFORM.
  destruct (e_pend v) eqn:Ep.
  { intros ->. repeat split; intros; try discriminate; auto. }
  intros ->. repeat split; intros; try discriminate.
  - subst. rewrite H0, H1. reflexivity.
  - destruct (e_tt v =? 1)%N eqn:Et; destruct (it_ut i =? 1)%N eqn:E1; simpl; auto. lia.
Qed.

Lemma judge07_sound c lg t o r : judge07 c lg t o r = true -> judge07P c lg t o r.
Proof.
  destruct o, r; simpl; intro H; auto; try discriminate.
  - intros k Hk. apply (sp_dec_rule c lg t i k b Hk). revert H. destruct (sp_dec c lg t i); auto. intro H. apply eqb_prop; exact H.
  - destruct (filt_ok_sound _ _ _ H) as [mask [Hl [Hs Hm]]]. exists mask. split; [exact Hl|]. split; [exact Hs|].
    intros n i m k Hi Hmm Hk. eapply sp_dec_rule; [exact Hk | exact (Hm n i m Hi Hmm)].
  - destruct (filt_ok_sound _ _ _ H) as [mask [Hl [Hs Hm]]]. exists mask. split; [exact Hl|]. split; [exact Hs|].
    intros n i m k Hi Hmm Hk. eapply sp_dec_rule; [exact Hk | exact (Hm n i m Hi Hmm)].
  - destruct (filt_ok_sound _ _ _ H) as [mask [Hl [Hs Hm]]]. exists mask. split; [exact Hl|]. split; [exact Hs|].
    intros n i m k Hi Hmm Hk. eapply fp_dec_rule; [exact Hk | exact (Hm n i m Hi Hmm)].
Qed.

Lemma check_from_sound (J : log -> Z -> op -> ret -> bool) (JP : log -> Z -> op -> ret -> Prop) :
  (forall lg t o r, J lg t o r = true -> JP lg t o r) ->
  forall h lg, check_from J lg h = true -> spec_from JP lg h.
Proof.
  intros HJ. induction h as [|[[t o] r] h IH]; intros lg H; simpl in *; auto.
  apply andb_true_iff in H as [H1 H2]. split; auto.
Qed.

Lemma C06_check_sound c h : C06_check c h = true -> C06_spec c h.
Proof. apply check_from_sound. apply judge06_sound. Qed.

Lemma C07_check_sound c h : C07_check c h = true -> C07_spec c h.
Proof. apply check_from_sound. apply judge07_sound. Qed.

(* ------------------------------------------------------------------ the state and log a history leads to *)

Fixpoint reach (c : ccfg) (s : state) (lg : log) (h : list (Z * op)) : state * log :=
  match h with
  | [] => (s, lg)
  | (t, o) :: h' => reach c (fst (step c s t o)) (mlog c s lg t o) h'
  end.

Lemma reach_inv_at c h : forall s lg t0 t o,
  Inv c t0 s lg -> times_from t0 (h ++ [(t, o)]) ->
  Inv c t (fst (reach c s lg h)) (snd (reach c s lg h)).
Proof.
  induction h as [|[t1 o1] h IH]; intros s lg t0 t o HI Ht; simpl in *.
  - destruct Ht as [Hle _]. eapply inv_mono; eauto.
  - destruct Ht as [Hle Ht]. eapply IH; [|exact Ht]. apply step_inv. eapply inv_mono; eauto.
Qed.

Lemma run_from_app c h1 : forall s h2,
  run_from c s (h1 ++ h2) = run_from c s h1 ++ run_from c (fst (reach c s [] h1)) h2.
Proof.
  induction h1 as [|[t o] h1 IH]; intros s h2; simpl; auto.
  destruct (step c s t o) as [s' r] eqn:E. simpl. rewrite IH. f_equal. f_equal.
  clear. generalize (mlog c s [] t o). generalize (@nil lent).
  revert s'. induction h1 as [|[t1 o1] h1 IH]; intros s' l1 l2; simpl; auto.
Qed.

Lemma reach_state_log_indep c h : forall s l1 l2, fst (reach c s l1 h) = fst (reach c s l2 h).
Proof. induction h as [|[t o] h IH]; intros s l1 l2; simpl; auto. Qed.

(* ------------------------------------------------------------------ C06 theorems *)

Lemma transmit_sound c pre t w b :
  wf_times (pre ++ [(t, OTransmit w b)]) ->
  should_transmit t w b (fst (reach c s0 [] pre)) = true ->
  exists tj D, scan c w (snd (reach c s0 [] pre)) = Some (tj, b, D) /\ nonew b D = true /\ within c tj t = true.
Proof.
  intros Hwf Hr. pose proof (reach_inv_at c pre s0 [] 0 t _ (inv_init c) Hwf) as HI.
  destruct (model_transmit_ok c t _ _ w b HI) as [H _]. auto.
Qed.

(* scan reads the log as intended *)
Definition is_restart (x : lent) : bool := match x with LRestart => true | _ => false end.
Definition is_acc_of (w : N) (x : lent) : bool := match x with LAcc _ w' _ r => (w' =? w)%N && r | _ => false end.

Lemma scan_last_accept c w lg tj b D :
  scan c w lg = Some (tj, b, D) ->
  exists l1 l2, lg = l1 ++ LAcc tj w b true :: l2
    /\ forallb (fun x => negb (is_restart x) && negb (is_acc_of w x)) l1 = true
    /\ length D = length (filter (fun x => match x with LEv _ e => (ev_w e =? w)%N && confirmed c e | _ => false end) l1).
Proof.
  revert tj b D. induction lg as [|x lg IH]; intros tj b D H; simpl in H; [discriminate|].
  destruct x as [t' w' b' r | t' e | ]; [| |discriminate].
  - destruct ((w' =? w)%N && r) eqn:E.
    + inversion H; subst. apply andb_true_iff in E as [E1 E2]. apply N.eqb_eq in E1. subst.
      exists [], lg. simpl. auto.
    + destruct (IH _ _ _ H) as [l1 [l2 [H1 [H2 H3]]]]. exists (LAcc t' w' b' r :: l1), l2. simpl.
      rewrite E, H2, H3. subst. auto.
  - destruct (scan c w lg) as [[[tj0 b0] D0]|] eqn:Es; [|discriminate].
    destruct (IH _ _ _ eq_refl) as [l1 [l2 [H1 [H2 H3]]]].
    exists (LEv t' e :: l1), l2. simpl. rewrite H2.
    destruct ((ev_w e =? w)%N && confirmed c e); inversion H; subst; simpl; auto.
Qed.

(* atomic operations never lower the awaited block of a live record *)
Lemma accept_monotone c t w b s w0 v :
  0 <= t -> cget t w0 (s_cache s) = Some v ->
  exists v', cget t w0 (s_cache (fst (accept c t w b s))) = Some v' /\ (e_check v <= e_check v')%N.
Proof.
  intros H0 Hv. unfold accept.
  assert (Hl : live t (cexp (c_window c) t) = true) by (rewrite live_cexp; auto; unfold within; lia).
  destruct (cget t w (s_cache s)) as [v1|] eqn:E1; [destruct (e_check v1 <? b)%N eqn:Eb|]; simpl.
  - rewrite cget_csetN. destruct (w0 =? w)%N eqn:Ew.
    + apply N.eqb_eq in Ew. subst w0. rewrite Hl. exists (mkE b true 0 0). split; [reflexivity|]. simpl.
      rewrite Hv in E1. inversion E1; subst. lia.
    + exists v. split; [exact Hv | lia].
  - exists v. split; [exact Hv | lia].
  - rewrite cget_csetN. destruct (w0 =? w)%N eqn:Ew.
    + apply N.eqb_eq in Ew. subst w0. congruence.
    + exists v. split; [exact Hv | lia].
Qed.

Lemma event_monotone c t s e w0 v :
  0 <= t -> cget t w0 (s_cache s) = Some v ->
  exists v', cget t w0 (s_cache (step_event c t s e)) = Some v' /\ (e_check v <= e_check v')%N.
Proof.
  intros H0 Hv.
  assert (Hl : live t (cexp (c_window c) t) = true) by (rewrite live_cexp; auto; unfold within; lia).
  pose proof (step_event_effect c t s e) as Heff. remember (step_event c t s e) as s' eqn:Es'. clear Es'.
  inversion Heff as [Hs | v1 Hc Hvis Hr Hlt | v1 Hc Hvis Hr Hle]; subst s'.
  - exists v. split; [exact Hv | lia].
  - simpl. exists v. split; [exact Hv | lia].
  - simpl. rewrite cget_csetN. destruct (w0 =? ev_w e)%N eqn:Ew.
    + apply N.eqb_eq in Ew. subst w0. rewrite Hl. eexists; split; [reflexivity|]. simpl.
      rewrite Hv in Hr. inversion Hr; subst. exact Hle.
    + exists v. split; [exact Hv | lia].
Qed.

Lemma step_monotone c s t o w v :
  0 <= t -> o <> ORestart -> cget t w (s_cache s) = Some v ->
  exists v', cget t w (s_cache (fst (step c s t o))) = Some v' /\ (e_check v <= e_check v')%N.
Proof.
  intros H0 Hnr Hv. destruct o; simpl; eauto using N.le_refl.
  - pose proof (accept_monotone c t w0 b s w v H0 Hv) as H. destruct (accept c t w0 b s); exact H.
  - unfold check_events. clear Hnr. revert s v Hv. induction evs as [|e evs IH]; intros s v Hv; simpl; eauto using N.le_refl.
    destruct (event_monotone c t s e w v H0 Hv) as [v1 [H1 H2]].
    destruct (IH _ _ H1) as [v2 [H3 H4]]. exists v2. split; auto. lia.
  - assert (forall s v, cget t w (s_cache s) = Some v ->
              exists v', cget t w (s_cache (fst (accept_all c t l s))) = Some v' /\ (e_check v <= e_check v')%N) as HA.
    { clear s v Hv Hnr. induction l as [|[w1 b1] l IH]; intros s v Hv; simpl; eauto using N.le_refl.
      destruct (accept_monotone c t w1 b1 s w v H0 Hv) as [v1 [H1 H2]].
      destruct (accept c t w1 b1 s) as [s1 r1]. simpl in H1.
      destruct (IH _ _ H1) as [v2 [H3 H4]]. destruct (accept_all c t l s1) as [s2 rs]. simpl in *.
      exists v2. split; auto. lia. }
    destruct (HA s v Hv) as [v' [H1 H2]]. destruct (accept_all c t l s). eauto.
  - rewrite cget_cgc; [|lia]. eauto using N.le_refl.
  - congruence.
Qed.

(* any-of aggregation: the report verdict is the disjunction of the per-upkeep verdicts, and the
   per-upkeep verdicts / final state are those of accepting the upkeeps one after the other *)
Definition accept_ops (t : Z) (l : list (N * N)) : list (Z * op) := map (fun wb => (t, OAccept (fst wb) (snd wb))) l.

Lemma accept_all_seq c t l : forall s,
  run_from c s (accept_ops t l) = map RB (snd (accept_all c t l s))
  /\ fst (reach c s [] (accept_ops t l)) = fst (accept_all c t l s).
Proof.
  induction l as [|[w b] l IH]; intros s; simpl; auto.
  destruct (accept c t w b s) as [s1 r] eqn:Ea. simpl.
  destruct (IH s1) as [H1 H2]. destruct (accept_all c t l s1) as [s2 rs] eqn:Eb. simpl in *.
  rewrite H1. split; auto. rewrite <- H2. apply reach_state_log_indep.
Qed.

Lemma accept_report_anyof c s t l :
  step c s t (OAcceptRep l) =
    (fst (accept_all c t l s), RBL (existsb (fun x => x) (snd (accept_all c t l s))) (snd (accept_all c t l s)))
  /\ (existsb (fun x => x) (snd (accept_all c t l s)) = true <-> In true (snd (accept_all c t l s)))
  /\ run_from c s (accept_ops t l) = map RB (snd (accept_all c t l s))
  /\ fst (reach c s [] (accept_ops t l)) = fst (accept_all c t l s).
Proof.
  split; [simpl; destruct (accept_all c t l s); reflexivity|].
  split; [apply existsb_id_In|]. apply accept_all_seq.
Qed.

Lemma transmit_report_anyof c s t l :
  let rs := map (fun wb => should_transmit t (fst wb) (snd wb) s) l in
  step c s t (OTransmitRep l) = (s, RBL (existsb (fun x => x) rs) rs)
  /\ (existsb (fun x => x) rs = true <-> In true rs).
Proof.
  simpl. split; [|apply existsb_id_In].
  f_equal. assert (E : map (fun '(w, b) => should_transmit t w b s) l = map (fun wb => should_transmit t (fst wb) (snd wb) s) l).
  { apply map_ext. intros [w b]; reflexivity. } rewrite E. reflexivity.
Qed.

(* restart *)
Definition accepts_w (w : N) (o : op) : bool :=
  match o with
  | OAccept w' _ => (w' =? w)%N
  | OAcceptRep l => existsb (fun wb => (fst wb =? w)%N) l
  | _ => false
  end.

Lemma step_keeps_none c s t o w :
  s_cache s w = None -> accepts_w w o = false -> s_cache (fst (step c s t o)) w = None.
Proof.
  intros Hn Ha. destruct o; simpl in *; auto.
  - unfold accept. assert (E : (w =? w0)%N = false) by (rewrite N.eqb_sym; exact Ha).
    destruct (cget t w0 (s_cache s)) as [v|]; [destruct (e_check v <? b)%N|]; simpl; auto;
      unfold cset; rewrite E; exact Hn.
  - unfold check_events. revert s Hn. induction evs as [|e evs IH]; intros s Hn; simpl; auto.
    apply IH. pose proof (step_event_effect c t s e) as Heff.
    remember (step_event c t s e) as s' eqn:Es'. clear Es'.
    inversion Heff as [Hs | v1 Hc Hvis Hr Hlt | v1 Hc Hvis Hr Hle]; subst s'; simpl; auto.
    unfold cset. destruct (w =? ev_w e)%N eqn:E; auto.
    apply N.eqb_eq in E. subst w. unfold cget in Hr. rewrite Hn in Hr. discriminate.
  - revert s Hn Ha. induction l as [|[w1 b1] l IH]; intros s Hn Ha; simpl; auto.
    simpl in Ha. apply orb_false_iff in Ha as [Ha1 Ha2].
    assert (Hs1 : s_cache (fst (accept c t w1 b1 s)) w = None).
    { unfold accept. assert (E : (w =? w1)%N = false) by (rewrite N.eqb_sym; exact Ha1).
      destruct (cget t w1 (s_cache s)) as [v|]; [destruct (e_check v <? b1)%N|]; simpl; auto;
        unfold cset; rewrite E; exact Hn. }
    destruct (accept c t w1 b1 s) as [s1 r1]. simpl in Hs1.
    specialize (IH s1 Hs1 Ha2). destruct (accept_all c t l s1) as [s2 rs]. exact IH.
  - unfold cgc. rewrite Hn. reflexivity.
Qed.

Lemma reach_keeps_none c w h : forall s lg,
  s_cache s w = None -> forallb (fun x => negb (accepts_w w (snd x))) h = true ->
  s_cache (fst (reach c s lg h)) w = None.
Proof.
  induction h as [|[t o] h IH]; intros s lg Hn Hf; simpl in *; auto.
  apply andb_true_iff in Hf as [H1 H2]. apply IH; auto. apply step_keeps_none; auto.
  destruct (accepts_w w o); auto; discriminate.
Qed.

Lemma reach_app c h1 : forall s lg h2,
  fst (reach c s lg (h1 ++ h2)) = fst (reach c (fst (reach c s lg h1)) [] h2).
Proof.
  induction h1 as [|[t o] h1 IH]; intros s lg h2; simpl.
  - apply reach_state_log_indep.
  - apply IH.
Qed.

Lemma restart_no_transmit c pre tr mid t w b :
  forallb (fun x => negb (accepts_w w (snd x))) mid = true ->
  run c (pre ++ (tr, ORestart) :: mid ++ [(t, OTransmit w b)]) = run c (pre ++ (tr, ORestart) :: mid) ++ [RB false].
Proof.
  intro Hf. unfold run.
  replace (pre ++ (tr, ORestart) :: mid ++ [(t, OTransmit w b)]) with ((pre ++ (tr, ORestart) :: mid) ++ [(t, OTransmit w b)])
    by (rewrite <- app_assoc; reflexivity).
  rewrite run_from_app. f_equal. simpl. f_equal. f_equal.
  unfold should_transmit, cget. rewrite reach_app. simpl.
  rewrite (reach_keeps_none c w mid s0 _ eq_refl Hf). reflexivity.
Qed.

(* garbage collection is invisible *)
Definition seq (t : Z) (s1 s2 : state) : Prop :=
  forall now, t <= now ->
    (forall k, cget now k (s_cache s1) = cget now k (s_cache s2))
    /\ (forall k, cget now k (s_vis s1) = cget now k (s_vis s2)).

Lemma seq_mono t t' s1 s2 : t <= t' -> seq t s1 s2 -> seq t' s1 s2.
Proof. intros H Hs now Hn. apply Hs. lia. Qed.

Lemma seq_put c t s1 s2 w v : seq t s1 s2 -> seq t (put c t w v s1) (put c t w v s2).
Proof.
  intros Hs now Hn. destruct (Hs now Hn) as [H1 H2]. split; simpl; auto.
  intros k. rewrite !cget_csetN. destruct (k =? w)%N; auto.
Qed.

Lemma seq_accept c t s1 s2 w b :
  seq t s1 s2 -> snd (accept c t w b s1) = snd (accept c t w b s2)
                 /\ seq t (fst (accept c t w b s1)) (fst (accept c t w b s2)).
Proof.
  intros Hs. unfold accept. destruct (Hs t (Z.le_refl t)) as [H1 _]. rewrite (H1 w).
  destruct (cget t w (s_cache s2)) as [v|]; [destruct (e_check v <? b)%N|]; simpl; auto using seq_put.
Qed.

Lemma seq_event c t s1 s2 e : seq t s1 s2 -> seq t (step_event c t s1 e) (step_event c t s2 e).
Proof.
  intros Hs. unfold step_event. destruct (ev_conf e <? c_minconf c); auto.
  destruct (Hs t (Z.le_refl t)) as [H1 H2]. rewrite (H2 (ev_id e)), (H1 (ev_w e)).
  destruct (cget t (ev_id e) (s_vis s2)); auto.
  destruct (cget t (ev_w e) (s_cache s2)) as [v|]; auto.
  assert (Hm : seq t (mkS (s_cache s1) (cset vid_eqb (c_window c) t (ev_id e) true (s_vis s1)))
                     (mkS (s_cache s2) (cset vid_eqb (c_window c) t (ev_id e) true (s_vis s2)))).
  { intros now Hn. destruct (Hs now Hn) as [G1 G2]. split; simpl; auto.
    intros k. rewrite !cget_csetV. destruct (vid_eqb k (ev_id e)); auto. }
  destruct (ev_check e =? e_check v)%N; [apply seq_put; auto|].
  destruct (e_check v <? ev_check e)%N; [apply seq_put; auto|]. exact Hm.
Qed.

Lemma seq_step c t s1 s2 o :
  seq t s1 s2 -> snd (step c s1 t o) = snd (step c s2 t o) /\ seq t (fst (step c s1 t o)) (fst (step c s2 t o)).
Proof.
  intros Hs. destruct (Hs t (Z.le_refl t)) as [H1 H2].
  assert (Hsp : forall i, should_process t i s1 = should_process t i s2)
    by (intro i; unfold should_process; rewrite H1; reflexivity).
  assert (Hkp : forall i, keep_proposal t i s1 = keep_proposal t i s2)
    by (intro i; unfold keep_proposal; rewrite H1; reflexivity).
  assert (Hst : forall w b, should_transmit t w b s1 = should_transmit t w b s2)
    by (intros w b; unfold should_transmit; rewrite H1; reflexivity).
  destruct o; simpl.
  - destruct (seq_accept c t s1 s2 w b Hs) as [A B].
    destruct (accept c t w b s1), (accept c t w b s2); simpl in *. subst. auto.
  - rewrite Hst. auto.
  - split; auto. unfold check_events. revert s1 s2 Hs H1 H2 Hsp Hkp Hst.
    induction evs as [|e evs IH]; intros s1 s2 Hs _ _ _ _ _; simpl; auto.
    pose proof (seq_event c t s1 s2 e Hs) as Hs'. destruct (Hs' t (Z.le_refl t)) as [G1 G2].
    apply IH; auto.
    + intro i; unfold should_process; rewrite G1; reflexivity.
    + intro i; unfold keep_proposal; rewrite G1; reflexivity.
    + intros w b; unfold should_transmit; rewrite G1; reflexivity.
  - rewrite Hsp. auto.
  - split; auto. f_equal. apply filter_ext. auto.
  - split; auto. f_equal. apply filter_ext. auto.
  - split; auto. f_equal. apply filter_ext. auto.
  - assert (HA : forall s1 s2, seq t s1 s2 ->
               snd (accept_all c t l s1) = snd (accept_all c t l s2)
               /\ seq t (fst (accept_all c t l s1)) (fst (accept_all c t l s2))).
    { clear. induction l as [|[w b] l IH]; intros s1 s2 Hs; simpl; auto.
      destruct (seq_accept c t s1 s2 w b Hs) as [A B].
      destruct (accept c t w b s1) as [a1 r1], (accept c t w b s2) as [a2 r2]; simpl in *. subst.
      destruct (IH _ _ B) as [C D].
      destruct (accept_all c t l a1), (accept_all c t l a2); simpl in *. subst. auto. }
    destruct (HA _ _ Hs) as [A B]. destruct (accept_all c t l s1), (accept_all c t l s2); simpl in *. subst. auto.
  - split; auto. assert (E : map (fun '(w, b) => should_transmit t w b s1) l = map (fun '(w, b) => should_transmit t w b s2) l).
    { apply map_ext. intros [w b]. apply Hst. } rewrite E. reflexivity.
  - split; auto. intros now Hn. destruct (Hs now Hn) as [G1 G2]. simpl. split; intro k; rewrite !cget_cgc; auto.
  - split; auto. intros now Hn. split; reflexivity.
Qed.

Lemma seq_run c h : forall t s1 s2, seq t s1 s2 -> times_from t h -> run_from c s1 h = run_from c s2 h.
Proof.
  induction h as [|[t1 o] h IH]; intros t s1 s2 Hs Ht; simpl; auto.
  destruct Ht as [Hle Ht]. destruct (seq_step c t1 s1 s2 o (seq_mono _ _ _ _ Hle Hs)) as [A B].
  destruct (step c s1 t1 o), (step c s2 t1 o); simpl in *. subst. f_equal. eapply IH; eauto.
Qed.

Lemma gc_invisible c h1 tg h2 :
  times_from tg h2 ->
  exists r1 r2, length r1 = length h1 /\ run c (h1 ++ h2) = r1 ++ r2 /\ run c (h1 ++ (tg, OGC) :: h2) = r1 ++ RU :: r2.
Proof.
  intro Ht. unfold run. rewrite !run_from_app.
  exists (run_from c s0 h1), (run_from c (fst (reach c s0 [] h1)) h2).
  split; [|split; auto].
  - generalize s0. induction h1 as [|[t o] h1 IH]; intros s; simpl; auto. destruct (step c s t o). simpl. f_equal. apply IH.
  - simpl. f_equal. f_equal. apply (seq_run c h2 tg); auto.
    intros now Hn. simpl. split; intro k; apply cget_cgc; auto.
Qed.

(* ------------------------------------------------------------------ C07 theorems *)

Lemma record_at c pre t o (w : N) :
  wf_times (pre ++ [(t, o)]) ->
  Inv c t (fst (reach c s0 [] pre)) (snd (reach c s0 [] pre)).
Proof. intro H. eapply reach_inv_at; eauto. apply inv_init. Qed.

Lemma pending_blocks c pre t i tj b D :
  wf_times (pre ++ [(t, OShould i)]) ->
  scan c (it_w i) (snd (reach c s0 [] pre)) = Some (tj, b, D) -> dlow b D = true -> within c tj t = true ->
  should_process t i (fst (reach c s0 [] pre)) = false /\ keep_proposal t i (fst (reach c s0 [] pre)) = false.
Proof.
  intros Hwf Es Hd Hw. destruct (record_at c pre t _ (it_w i) Hwf) as [H0 [H1 [H2 H3]]].
  specialize (H2 (it_w i) t (Z.le_refl t)). rewrite Es in H2. destruct H2 as (_ & B & _).
  unfold should_process, keep_proposal. rewrite (B Hd), Hw. simpl. auto.
Qed.

Lemma settled_record c pre t o w tj b D tp e0 :
  wf_times (pre ++ [(t, o)]) ->
  scan c w (snd (reach c s0 [] pre)) = Some (tj, b, D) -> settledD c tj b D = Some (tp, e0) -> within c tp t = true ->
  cget t w (s_cache (fst (reach c s0 [] pre))) = Some (rec_of e0).
Proof.
  intros Hwf Es Hs Hw. destruct (record_at c pre t _ w Hwf) as [H0 [H1 [H2 H3]]].
  specialize (H2 w t (Z.le_refl t)). rewrite Es in H2. destruct H2 as (_ & _ & _ & D4 & _).
  destruct (D4 _ _ Hs) as [X _]. rewrite X, Hw. reflexivity.
Qed.

Lemma performed_log c pre t i tj b D tp e0 :
  wf_times (pre ++ [(t, OShould i)]) ->
  scan c (it_w i) (snd (reach c s0 [] pre)) = Some (tj, b, D) -> settledD c tj b D = Some (tp, e0) -> within c tp t = true ->
  ev_type e0 = PERFORM -> it_ut i = UT_LOG ->
  should_process t i (fst (reach c s0 [] pre)) = false /\ keep_proposal t i (fst (reach c s0 [] pre)) = false.
Proof.
  intros Hwf Es Hs Hw Ht Hu. unfold should_process, keep_proposal.
  rewrite (settled_record c pre t _ _ _ _ _ _ _ Hwf Es Hs Hw). simpl. rewrite Ht, Hu. auto.
Qed.

Lemma performed_cond c pre t i tj b D tp e0 :
  wf_times (pre ++ [(t, OShould i)]) ->
  scan c (it_w i) (snd (reach c s0 [] pre)) = Some (tj, b, D) -> settledD c tj b D = Some (tp, e0) -> within c tp t = true ->
  ev_type e0 = PERFORM -> it_ut i = UT_COND ->
  should_process t i (fst (reach c s0 [] pre)) = (ev_tb e0 <=? it_blk i)%N /\ keep_proposal t i (fst (reach c s0 [] pre)) = true.
Proof.
  intros Hwf Es Hs Hw Ht Hu. unfold should_process, keep_proposal.
  rewrite (settled_record c pre t _ _ _ _ _ _ _ Hwf Es Hs Hw). simpl. rewrite Ht, Hu. auto.
Qed.

Lemma released_event c pre t i tj b D tp e0 :
  wf_times (pre ++ [(t, OShould i)]) ->
  scan c (it_w i) (snd (reach c s0 [] pre)) = Some (tj, b, D) -> settledD c tj b D = Some (tp, e0) -> within c tp t = true ->
  ev_type e0 <> PERFORM ->
  should_process t i (fst (reach c s0 [] pre)) = true /\ keep_proposal t i (fst (reach c s0 [] pre)) = true.
Proof.
  intros Hwf Es Hs Hw Ht. unfold should_process, keep_proposal.
  rewrite (settled_record c pre t _ _ _ _ _ _ _ Hwf Es Hs Hw). simpl.
  apply N.eqb_neq in Ht. rewrite Ht, andb_false_r. simpl.
  destruct (it_ut i =? UT_LOG)%N; auto. destruct (it_ut i =? UT_COND)%N; auto.
Qed.

Lemma released_absent c pre t i :
  wf_times (pre ++ [(t, OShould i)]) ->
  known c (snd (reach c s0 [] pre)) t (it_w i) = Some None ->
  should_process t i (fst (reach c s0 [] pre)) = true /\ keep_proposal t i (fst (reach c s0 [] pre)) = true.
Proof.
  intros Hwf Hk. unfold should_process, keep_proposal.
  rewrite (known_correct _ _ _ _ _ _ (record_at c pre t _ (it_w i) Hwf) Hk). auto.
Qed.

Lemma filters_are_filters c s t l :
  (exists mask, length mask = length l /\ snd (step c s t (OPre l)) = RL (select mask l)
      /\ forall n i, nth_error l n = Some i -> nth_error mask n = Some (should_process t i s))
  /\ snd (step c s t (OFRes l)) = snd (step c s t (OPre l))
  /\ (exists mask, length mask = length l /\ snd (step c s t (OFProp l)) = RL (select mask l)
      /\ forall n i, nth_error l n = Some i -> nth_error mask n = Some (keep_proposal t i s))
  /\ fst (step c s t (OPre l)) = s /\ fst (step c s t (OFRes l)) = s /\ fst (step c s t (OFProp l)) = s.
Proof.
  simpl. split; [|split; [reflexivity|split; [|auto]]].
  - exists (map (fun i => should_process t i s) l). split; [apply map_length|]. split; [rewrite filter_select; reflexivity|].
    intros n i Hi. rewrite nth_error_map, Hi. reflexivity.
  - exists (map (fun i => keep_proposal t i s) l). split; [apply map_length|]. split; [rewrite filter_select; reflexivity|].
    intros n i Hi. rewrite nth_error_map, Hi. reflexivity.
Qed.

(* ------------------------------------------------------------------ racing poller *)

Definition th_idle (th : thread) : Prop := th_ph th = PIdle.

Definition FInv (st : fstate) : Prop :=
  match f_lock st with
  | None => th_ph (f_ta st) = PIdle /\ th_ph (f_tb st) = PIdle
  | Some tid =>
      th_ph (get_th st (negb tid)) = PIdle
      /\ (th_ph (get_th st tid) = PLocked \/ th_ph (get_th st tid) = PRead (f_cell st))
  end.

Lemma cle_refl a : cle a a.
Proof. destruct a as [v|]; simpl; auto. exists v. split; auto. lia. Qed.

Lemma cle_trans a b c : cle a b -> cle b c -> cle a c.
Proof.
  destruct a as [va|]; simpl; auto. intros [vb [-> H1]]. simpl. intros [vc [-> H2]]. exists vc. split; auto. lia.
Qed.

Lemma awrite_mono o cell : cle cell (fst (awrite o cell cell)).
Proof.
  destruct o as [b|e]; destruct cell as [v|]; simpl; auto.
  - destruct (e_check v <? b)%N eqn:E; simpl; eexists; split; try reflexivity; simpl; lia.
  - destruct (ev_check e =? e_check v)%N eqn:E1; [|destruct (e_check v <? ev_check e)%N eqn:E2];
      simpl; eexists; split; try reflexivity; simpl; lia.
Qed.

Lemma awrite_kept o cell acc :
  kept cell acc -> kept (fst (awrite o cell cell)) (acc ++ snd (awrite o cell cell)).
Proof.
  intros Hk b Hin. apply in_app_iff in Hin as [Hin|Hin].
  - destruct (Hk b Hin) as [v [-> Hb]]. pose proof (awrite_mono o (Some v)) as Hm. simpl in Hm.
    destruct Hm as [v' [Hv' Hle]]. exists v'. split; auto. lia.
  - destruct o as [b0|e]; destruct cell as [v|]; simpl in *.
    + destruct (e_check v <? b0)%N; simpl in *; destruct Hin as [Hin|[]]; inversion Hin; subst.
      eexists; split; [reflexivity|simpl; lia].
    + destruct Hin as [Hin|[]]; inversion Hin; subst. eexists; split; [reflexivity|simpl; lia].
    + destruct (ev_check e =? e_check v)%N; [|destruct (e_check v <? ev_check e)%N]; simpl in Hin; contradiction.
    + contradiction.
Qed.

Definition accs (st : fstate) : list (N * bool) := th_acc (f_ta st) ++ th_acc (f_tb st).

Lemma kept_perm cell a b x : kept cell (a ++ b) -> kept cell ((a ++ x) ++ b) -> kept cell ((a ++ x) ++ b).
Proof. auto. Qed.

Lemma kept_cle cell cell' acc : cle cell cell' -> kept cell acc -> kept cell' acc.
Proof.
  intros Hc Hk b Hin. destruct (Hk b Hin) as [v [-> Hb]]. simpl in Hc. destruct Hc as [v' [-> Hle]].
  exists v'. split; auto. lia.
Qed.

Lemma fstep_locked_inv st tid :
  FInv st -> kept (f_cell st) (accs st) ->
  FInv (fstep true st tid) /\ cle (f_cell st) (f_cell (fstep true st tid)) /\ kept (f_cell (fstep true st tid)) (accs (fstep true st tid)).
Proof.
  intros HI HK. unfold fstep.
  destruct (th_todo (get_th st tid)) as [|o rest] eqn:Etodo.
  { split; [exact HI|]. split; [apply cle_refl | exact HK]. }
  destruct (th_ph (get_th st tid)) as [| |rd] eqn:Eph.
  - (* idle: try to take the mutex *)
    destruct (f_lock st) as [hd|] eqn:El.
    { split; [exact HI|]. split; [apply cle_refl | exact HK]. }
    unfold FInv in HI. rewrite El in HI. destruct HI as [Ia Ib].
    destruct st as [cell lk ta tb]; destruct tid; simpl in *; subst lk;
      (split; [unfold FInv; simpl; auto | split; [apply cle_refl | exact HK]]).
  - (* locked: read *)
    unfold FInv in HI. destruct (f_lock st) as [hd|] eqn:El.
    + destruct HI as [Io Ih].
      destruct st as [cell lk ta tb]; destruct tid, hd; simpl in *; subst lk;
        try (rewrite Io in Eph; discriminate);
        (split; [unfold FInv; simpl; auto | split; [apply cle_refl | exact HK]]).
    + destruct HI as [Ia Ib]. destruct st as [cell lk ta tb]; destruct tid; simpl in *; congruence.
  - (* read done: write and release *)
    unfold FInv in HI. destruct (f_lock st) as [hd|] eqn:El.
    + destruct HI as [Io Ih].
      assert (Hrd : hd = tid /\ rd = f_cell st).
      { destruct st as [cell lk ta tb]; destruct tid, hd; simpl in *;
          try (rewrite Io in Eph; discriminate);
          (destruct Ih as [Ih|Ih]; rewrite Eph in Ih; [discriminate | inversion Ih; auto]). }
      destruct Hrd as [-> ->].
      pose proof (awrite_mono o (f_cell st)) as Hm.
      destruct (awrite o (f_cell st) (f_cell st)) as [cell' a] eqn:Ew. simpl in Hm.
      destruct st as [cell lk ta tb]; destruct tid; simpl in *; subst lk.
      * split; [unfold FInv; simpl; auto|]. split; [exact Hm|].
        unfold accs in *; simpl in *.
        pose proof (awrite_kept o cell (th_acc ta)) as Hk1. rewrite Ew in Hk1. simpl in Hk1.
        intros b Hin. apply in_app_iff in Hin as [Hin|Hin].
        -- apply Hk1; auto. intros b' Hb'. apply HK. apply in_app_iff. auto.
        -- eapply kept_cle; [exact Hm | | exact Hin]. intros b' Hb'. apply HK. apply in_app_iff. auto.
      * split; [unfold FInv; simpl; auto|]. split; [exact Hm|].
        unfold accs in *; simpl in *.
        pose proof (awrite_kept o cell (th_acc tb)) as Hk1. rewrite Ew in Hk1. simpl in Hk1.
        intros b Hin. apply in_app_iff in Hin as [Hin|Hin].
        -- eapply kept_cle; [exact Hm | | exact Hin]. intros b' Hb'. apply HK. apply in_app_iff. auto.
        -- apply Hk1; auto. intros b' Hb'. apply HK. apply in_app_iff. auto.
    + destruct HI as [Ia Ib]. destruct st as [cell lk ta tb]; destruct tid; simpl in *; congruence.
Qed.

Lemma frun_locked_inv sched : forall st,
  FInv st -> kept (f_cell st) (accs st) ->
  FInv (frun true sched st) /\ cle (f_cell st) (f_cell (frun true sched st))
  /\ kept (f_cell (frun true sched st)) (accs (frun true sched st)).
Proof.
  unfold frun. induction sched as [|tid sched IH]; intros st HI HK; simpl.
  - split; auto. split; [apply cle_refl | exact HK].
  - destruct (fstep_locked_inv st tid HI HK) as [H1 [H2 H3]].
    destruct (IH _ H1 H3) as [G1 [G2 G3]]. split; auto. split; auto. eapply cle_trans; eauto.
Qed.

(* with the mutex: for every pair of programs, every start record and EVERY schedule (and every
   prefix of it), the awaited block never goes down and every acceptance that answered true is
   still covered *)
Lemma locked_monotone cell pa pb s1 s2 :
  cle (f_cell (frun true s1 (finit cell pa pb))) (f_cell (frun true (s1 ++ s2) (finit cell pa pb)))
  /\ kept (f_cell (frun true (s1 ++ s2) (finit cell pa pb))) (accs (frun true (s1 ++ s2) (finit cell pa pb))).
Proof.
  assert (H0 : FInv (finit cell pa pb)) by (unfold FInv; simpl; auto).
  assert (K0 : kept (f_cell (finit cell pa pb)) (accs (finit cell pa pb))) by (intros b []).
  destruct (frun_locked_inv s1 _ H0 K0) as [H1 [_ K1]].
  unfold frun in *. rewrite fold_left_app.
  destruct (frun_locked_inv s2 _ H1 K1) as [H2 [C2 K2]]. unfold frun in *. auto.
Qed.

Definition race_cell : option entry := Some (mkE 10 true 0 0).
Definition race_ev : event := mkEv 1 1 1 11 5 10.
Definition race_sched : list bool := [false; true; true; false].

Lemma race_refuted :
  let st3 := frun false (firstn 3 race_sched) (finit race_cell [AAcc 20] [AEv race_ev]) in
  let st4 := frun false race_sched (finit race_cell [AAcc 20] [AEv race_ev]) in
  fdone st4 = true /\ In (20%N, true) (accs st4)
  /\ ~ cle (f_cell st3) (f_cell st4) /\ ~ kept (f_cell st4) (accs st4).
Proof.
  vm_compute. split; [reflexivity|]. split; [left; reflexivity|]. split.
  - intros [v' [Hv Hle]]. inversion Hv; subst. simpl in Hle. apply Hle. reflexivity.
  - intro Hk. destruct (Hk 20%N (or_introl eq_refl)) as [v [Hv Hle]]. inversion Hv; subst. apply Hle. reflexivity.
Qed.

Lemma accept_strict c pre t w b tj bj D :
  wf_times (pre ++ [(t, OAccept w b)]) ->
  snd (accept c t w b (fst (reach c s0 [] pre))) = true ->
  scan c w (snd (reach c s0 [] pre)) = Some (tj, bj, D) -> within c tj t = true -> (bj < b)%N.
Proof.
  intros Hwf Hr Es Hw. destruct (model_accept_ok c t _ _ w b (record_at c pre t _ w Hwf)) as [H _]. eauto.
Qed.

(* ------------------------------------------------------------------ two-phase garbage collection *)

Lemma gc_sweep_recheck_invisible {K A} now now' (marked : K -> bool) (c : cache K A) k :
  now <= now' -> cget now' k (gc_sweep true now marked c) = cget now' k c.
Proof.
  intro H. unfold cget, gc_sweep. destruct (marked k); auto.
  destruct (c k) as [[v e]|]; auto. destruct (live now e) eqn:L; auto.
  destruct (live now' e) eqn:L2; auto. rewrite (live_mono _ _ _ H L2) in L. discriminate.
Qed.

Lemma gc_sweep_norecheck_refuted :
  exists (c0 : cache N entry) (W now : Z) (k : N) (v : entry),
    let marked := gc_mark now c0 in          (* phase 1 sees the old, expired item *)
    let c1 := cset N.eqb W now k v c0 in     (* a fresh item is set in between *)
    cget now k c1 = Some v /\ cget now k (gc_sweep false now marked c1) = None.
Proof.
  exists (cset N.eqb 5 10 1%N (mkE 10 true 0 0) cempty), 5, 100, 1%N, (mkE 20 true 0 0).
  vm_compute. split; reflexivity.
Qed.
