(* The real digest is not injective (finding F01): two witnesses at byte level. *)
From Verif Require Import Base.Util Model.Uid.
Open Scope N_scope.

Definition zeros32 : list N := repeat 0 32.
Definition wid_bytes : list N := [97; 98; 99].

(* (i) delimiter shifting between PerformData and FastGasWei: 0x09 inside perform data *)
Definition w1a : bres := mkBRes 0 false true 0 zeros32 100 zeros32 None wid_bytes 500 [2; 9; 3] (Some 5%Z) (Some 7%Z).
Definition w1b : bres := mkBRes 0 false true 0 zeros32 100 zeros32 None wid_bytes 500 [2] (Some 198917%Z) (Some 7%Z).  (* 0x030905 *)

(* (ii) int64 cast of GasAllocated: 1 and 2^64-1 *)
Definition w2a : bres := mkBRes 0 false true 0 zeros32 100 zeros32 None wid_bytes 1 [1] (Some 1%Z) (Some 1%Z).
Definition w2b : bres := mkBRes 0 false true 0 zeros32 100 zeros32 None wid_bytes 18446744073709551615 [1] (Some 1%Z) (Some 1%Z).

Theorem uid_bytes_not_injective :
  exists a b, bres_valid_shape a = true /\ bres_valid_shape b = true /\ bres_eqb a b = false /\ uid_bytes a = uid_bytes b.
Proof. exists w1a, w1b. repeat split; vm_compute; reflexivity. Qed.

Theorem uid_bytes_not_injective_gas :
  exists a b, bres_valid_shape a = true /\ bres_valid_shape b = true /\ bres_eqb a b = false /\ uid_bytes a = uid_bytes b.
Proof. exists w2a, w2b. repeat split; vm_compute; reflexivity. Qed.

(* Away from the two defects the digest does separate results: equal digests of results whose
   variable-length fields contain no delimiter byte and whose gas / block number are below 2^63 ... is
   NOT claimed here: the positive statement is the hypothesis uid_inj of the C01 theorems. *)
