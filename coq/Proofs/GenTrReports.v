(* The hand-written Reports model (Model/Reports.v) takes exactly the decisions of ocr3Plugin.Reports as
   /verif/gen translated them from /repo's current pkg/v3/plugin/ocr3.go (Gen/GeneratedTr.v). *)
From Coq Require Import ZArith NArith Bool List Lia ZifyBool ZifyN ZifyNat.
From Verif Require Import Base.GenIR Gen.GeneratedTr Model.Reports.
Import ListNotations.
Open Scope Z_scope.

(* ---------------- Reports ---------------- *)
Lemma of_N_w64 : forall x : N, Z.of_N (w64 x) = wrap64 (Z.of_N x).
Proof. intros. unfold w64, wrap64, two64. rewrite N2Z.inj_mod. reflexivity. Qed.

(* adding the current result to the running batch (actions 5, 6, 7) *)
Definition radd (c : cfg) (s1 : rstate) (p : perf) : rstate :=
  mkR (r_cur s1 ++ [p]) (w64 (r_gas s1 + w64 (p_gas p + c_over c))) (p_upk p :: r_seen s1) (r_acc s1).

Definition reports_body_atoms (c : cfg) (s : rstate) (p : perf) (enc_err : bool) : list Z * leaf :=
  g_reports_body (Z.of_nat (length (r_cur s))) (c_batch c) (Z.of_N (r_gas s)) (Z.of_N (p_gas p))
                 (Z.of_N (c_over c)) (Z.of_N (c_limit c)) (memN (p_upk p) (r_seen s)) enc_err.

Lemma reports_flush_cond_gen : forall c s p e,
  reports_body_atoms c s p e =
  if flush_cond true c s p then (if e then ([], RetO 1) else ([1; 2; 3; 4; 5; 6; 7], Fall)) else ([5; 6; 7], Fall).
Proof.
  intros. unfold reports_body_atoms, g_reports_body, flush_cond.
  rewrite <- !N2Z.inj_add, <- !of_N_w64, <- N2Z.inj_add, <- of_N_w64.
  set (X := w64 (w64 (r_gas s + p_gas p) + c_over c)).
  destruct (memN (p_upk p) (r_seen s)), e; gen_split; cbn [negb andb orb];
    try reflexivity; try (exfalso; lia).
Qed.

(* loop body, encoder succeeding: the model's rstep is the interpretation of the generated body
   (1 emit the running batch as a report, 2 / 3 / 4 reset batch, gas and seen set, 5 / 6 / 7 add the result) *)
Lemma gen_reports_body : forall c s p,
  rstep true c s p =
  match reports_body_atoms c s p false with
  | ([1; 2; 3; 4; 5; 6; 7], Fall) => radd c (mkR [] 0 [] (r_acc s ++ [r_cur s])) p
  | ([5; 6; 7], Fall) => radd c s p
  | _ => s
  end.
Proof.
  intros. rewrite reports_flush_cond_gen. unfold rstep, radd.
  destruct (flush_cond true c s p); reflexivity.
Qed.

(* loop body, encoder failing: the function returns (reports so far, error) exactly when a flush is due *)
Lemma gen_reports_body_encoder_error : forall c s p,
  reports_body_atoms c s p true = if flush_cond true c s p then ([], RetO 1) else ([5; 6; 7], Fall).
Proof. intros. rewrite reports_flush_cond_gen. reflexivity. Qed.

(* whole function: RetO 1 = (nil, decode error); 1 = the batching loop; a non-empty running batch is emitted
   at the end (2) - the model's rfinish; RetO 2 = (reports, encode error); RetO 3 = (reports, nil) *)
Lemma gen_reports_finish : forall s,
  rfinish s =
  match g_reports false (Z.of_nat (length (r_cur s))) false with
  | ([1; 2], RetO 3) => r_acc s ++ [r_cur s]
  | _ => r_acc s
  end.
Proof.
  intros. unfold rfinish, g_reports. destruct (r_cur s) as [|x l]; cbn [length negb]; [reflexivity|].
  gen_split; try reflexivity; exfalso; lia.
Qed.

Lemma gen_reports_errors : forall n (e : bool),
  g_reports true n e = ([], RetO 1) /\
  (0 < n -> g_reports false n true = ([1], RetO 2)).
Proof.
  intros. unfold g_reports. split; [reflexivity|]. intros. gen_split; try reflexivity; exfalso; lia.
Qed.

(* ---------------- off-chain configuration defaults ---------------- *)
(* what each assignment of ensureMinimumDefaults does to the configuration *)
Definition cfg_action (r : raw_cfg) (a : Z) : raw_cfg :=
  match a with
  | 1 => mkRaw 1200000 (rw_problen r) (rw_rounds r) (rw_minconf r) (rw_limit r) (rw_over r) (rw_batch r)
  | 2 => mkRaw (rw_lockout r) 7 (rw_rounds r) (rw_minconf r) (rw_limit r) (rw_over r) (rw_batch r)
  | 3 => mkRaw (rw_lockout r) (rw_problen r) 1 (rw_minconf r) (rw_limit r) (rw_over r) (rw_batch r)
  | 4 => mkRaw (rw_lockout r) (rw_problen r) (rw_rounds r) 0 (rw_limit r) (rw_over r) (rw_batch r)
  | 5 => mkRaw (rw_lockout r) (rw_problen r) (rw_rounds r) (rw_minconf r) 5300000%N (rw_over r) (rw_batch r)
  | 6 => mkRaw (rw_lockout r) (rw_problen r) (rw_rounds r) (rw_minconf r) (rw_limit r) 300000%N (rw_batch r)
  | 7 => mkRaw (rw_lockout r) (rw_problen r) (rw_rounds r) (rw_minconf r) (rw_limit r) (rw_over r) 1
  | _ => r
  end.

Definition cfg_defaults_atoms (r : raw_cfg) : list Z * leaf :=
  g_cfg_defaults (rw_lockout r) (rw_problen r) (rw_rounds r) (rw_minconf r)
                 (Z.of_N (rw_limit r)) (Z.of_N (rw_over r)) (rw_batch r).

Lemma ofN_eqb0 : forall x : N, Z.eqb (Z.of_N x) 0 = N.eqb x 0.
Proof. intros. destruct (N.eqb_spec x 0); destruct (Z.eqb_spec (Z.of_N x) 0); try reflexivity; exfalso; lia. Qed.

(* the model's ensure_defaults is the translated function: the assignments it performs, in order, applied to the
   configuration; it always falls through *)
Lemma gen_cfg_defaults : forall r,
  ensure_defaults r = fold_left cfg_action (fst (cfg_defaults_atoms r)) r /\ snd (cfg_defaults_atoms r) = Fall.
Proof.
  intros [lo pl ro mc li ov ba]. unfold cfg_defaults_atoms, g_cfg_defaults, ensure_defaults.
  cbn [rw_lockout rw_problen rw_rounds rw_minconf rw_limit rw_over rw_batch].
  rewrite <- !ofN_eqb0.
  split; gen_split; cbn [fst snd fold_left cfg_action]; try reflexivity; exfalso; lia.
Qed.

(* DecodeOffchainConfig applies the defaults to every configuration it returns without error *)
Lemma gen_cfg_decode : g_cfg_decode false = ([1], RetO 2) /\ g_cfg_decode true = ([], RetO 1).
Proof. split; reflexivity. Qed.
