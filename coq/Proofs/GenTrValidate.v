(* The hand-written validation model (Model/Validate.v) takes exactly the decisions of the validators of
   pkg/v3/observation.go and outcome.go as /verif/gen translated them from /repo's current sources
   (Gen/GeneratedTr.v).  Return values are numbered like verr_code; 100 = the callee's error is passed on. *)
From Coq Require Import ZArith NArith Bool List Lia ZifyBool ZifyN ZifyNat.
From Verif Require Import Base.GenIR Gen.GeneratedTr Gen.Generated Model.Types Model.Validate.
Import ListNotations.
Open Scope Z_scope.

(* what a returned leaf means as a verr, given the error the callee returned (if any) *)
Definition verr_of (inner : verr) (l : leaf) : verr :=
  match l with
  | RetO 0 => ok | RetO 1 => e_hist_len | RetO 2 => e_hist_dup | RetO 3 => e_perf_len | RetO 4 => e_failed
  | RetO 5 => e_ineligible | RetO 6 => e_ext_cond | RetO 7 => e_ext_log | RetO 8 => e_workid | RetO 9 => e_gas
  | RetO 10 => e_fgw_nil | RetO 11 => e_fgw_range | RetO 12 => e_ln_nil | RetO 13 => e_ln_range | RetO 14 => e_perf_dup
  | RetO 15 => e_props_len | RetO 16 => e_prop_dup | RetO 17 => e_cond_len | RetO 18 => e_log_len
  | RetO 19 => e_rounds_len | RetO 20 => e_round_len
  | RetO 100 => inner
  | _ => ok
  end.

Definition isNone {A} (o : option A) : bool := match o with None => true | Some _ => false end.
(* big.Int.Cmp *)
Definition cmpz (a b : Z) : Z := match a ?= b with Lt => -1 | Eq => 0 | Gt => 1 end.
Definition oz (o : option Z) : Z := match o with Some v => v | None => 0 end.


  Lemma ofN_eqb : forall a b : N, (Z.of_N a =? Z.of_N b) = (a =? b)%N.
  Proof. intros. destruct (Z.eqb_spec (Z.of_N a) (Z.of_N b)), (N.eqb_spec a b); try reflexivity; exfalso; lia. Qed.

  Lemma ofN_eqb0 : forall a : N, (Z.of_N a =? 0) = (a =? 0)%N.
  Proof. intros. apply (ofN_eqb a 0%N). Qed.

  Lemma cmpz_lt0 : forall a b, (cmpz a b <? 0) = (a <? b).
  Proof. intros. unfold cmpz. destruct (Z.compare_spec a b), (Z.ltb_spec a b); try reflexivity; exfalso; lia. Qed.

  Lemma cmpz_gt0 : forall a b, (cmpz a b >? 0) = (b <? a).
  Proof. intros. unfold cmpz. rewrite Z.gtb_ltb. destruct (Z.compare_spec a b), (Z.ltb_spec b a); try reflexivity; exfalso; lia. Qed.

  Lemma gen_val_ext : forall t ut,
    check_ext t ut =
    verr_of ok (snd (g_val_ext (Z.of_N ut) (Z.of_N ut_cond) (Z.of_N ut_log) (negb (isNone (t_ext t))) (isNone (t_ext t)))).
  Proof.
    intros. unfold check_ext, g_val_ext, ut_cond, ut_log.
    destruct (t_ext t); cbn [isNone negb]; gen_split; try reflexivity; try (exfalso; lia).
  Qed.

  (* the three loops of validateAutomationObservation, one step each *)
  Lemma gen_val_obs_hist_body : forall seen b t,
    check_hist seen (b :: t) =
    match g_val_obs_hist_body (memN (bk_num b) seen) with
    | ([1], Fall) => check_hist (bk_num b :: seen) t
    | (_, l) => verr_of ok l
    end.
  Proof. intros. cbn [check_hist]. unfold g_val_obs_hist_body. destruct (memN (bk_num b) seen); reflexivity. Qed.

  (* validateAutomationObservation, whole function: 1 / 2 / 3 = the three loops; the length rules in source order *)
  Lemma gen_val_obs : forall n_hist n_perf n_props n_cond n_log,
    g_val_obs n_hist ObservationBlockHistoryLimit n_perf ObservationPerformablesLimit n_props
              ObservationConditionalsProposalsLimit ObservationLogRecoveryProposalsLimit n_cond n_log =
    if ObservationBlockHistoryLimit <? n_hist then ([], RetO 1)
    else if ObservationPerformablesLimit <? n_perf then ([1], RetO 3)
    else if ObservationConditionalsProposalsLimit + ObservationLogRecoveryProposalsLimit <? n_props then ([1; 2], RetO 15)
    else if ObservationConditionalsProposalsLimit <? n_cond then ([1; 2; 3], RetO 17)
    else if ObservationLogRecoveryProposalsLimit <? n_log then ([1; 2; 3], RetO 18)
    else ([1; 2; 3], RetO 0).
  Proof.
    intros. unfold g_val_obs.
    set (A := ObservationBlockHistoryLimit). set (B := ObservationPerformablesLimit).
    set (C := ObservationConditionalsProposalsLimit). set (D := ObservationLogRecoveryProposalsLimit).
    clearbody A B C D. gen_split; try reflexivity; try (exfalso; lia).
  Qed.

  (* validateAutomationOutcome: whole function and its loops *)
  Lemma gen_val_outcome : forall n_agreed n_rounds,
    g_val_outcome n_agreed OutcomeAgreedPerformablesLimit n_rounds OutcomeSurfacedProposalsRoundHistoryLimit =
    if OutcomeAgreedPerformablesLimit <? n_agreed then ([], RetO 3)
    else if OutcomeSurfacedProposalsRoundHistoryLimit <? n_rounds then ([1], RetO 19)
    else ([1; 2], RetO 0).
  Proof.
    intros. unfold g_val_outcome.
    set (A := OutcomeAgreedPerformablesLimit). set (B := OutcomeSurfacedProposalsRoundHistoryLimit). clearbody A B.
    gen_split; try reflexivity; try (exfalso; lia).
  Qed.

  Lemma gen_val_outcome_bodies : forall (bad seen : bool) n_round,
    g_val_outcome_perf_body bad seen = (if bad then ([], RetO 100) else if seen then ([], RetO 14) else ([1], Fall)) /\
    g_val_outcome_prop_body bad seen = (if bad then ([], RetO 100) else if seen then ([], RetO 16) else ([1], Fall)) /\
    g_val_outcome_round_body n_round OutcomeSurfacedProposalsLimit =
      (if OutcomeSurfacedProposalsLimit <? n_round then ([], RetO 20) else ([1], Fall)).
  Proof.
    intros. unfold g_val_outcome_perf_body, g_val_outcome_prop_body, g_val_outcome_round_body.
    set (A := OutcomeSurfacedProposalsLimit). clearbody A.
    destruct bad, seen; repeat split; try reflexivity; gen_split; try reflexivity; try (exfalso; lia).
  Qed.

Section V.
  Variable utg : N -> N.
  Variable wg : N -> trigger -> N.



  Lemma gen_val_result : forall r,
    let ext := check_ext (r_trig r) (utg (r_upk r)) in
    check_result utg wg r =
    verr_of ext (snd (g_val_result (Z.of_N (r_state r)) (r_retryable r) (r_eligible r) (Z.of_N (r_reason r))
                                   (negb (is_ok ext)) (Z.of_N (wg (r_upk r) (r_trig r))) (Z.of_N (r_wid r)) (Z.of_N (r_gas r))
                                   (isNone (r_fgw r)) (cmpz (oz (r_fgw r)) 0) (cmpz (oz (r_fgw r)) uint256_max)
                                   (isNone (r_ln r)) (cmpz (oz (r_ln r)) 0) (cmpz (oz (r_ln r)) uint256_max))).
  Proof.
    intros. unfold check_result, g_val_result, seq_err, check_price. fold ext.
    rewrite !ofN_eqb0, ofN_eqb, !cmpz_lt0, !cmpz_gt0.
    (* both sides now test the same atomic conditions; abstract them and compare the two decision trees,
       whatever the order and nesting in which the source tests them *)
    destruct (r_fgw r) as [fg|], (r_ln r) as [ln|]; cbn [isNone oz];
      generalize (r_state r =? 0)%N (r_retryable r) (r_eligible r) (r_reason r =? 0)%N
                 (wg (r_upk r) (r_trig r) =? r_wid r)%N (r_gas r =? 0)%N;
      try generalize (fg <? 0) (uint256_max <? fg); try generalize (ln <? 0) (uint256_max <? ln);
      intros; destruct ext; cbn [is_ok negb];
      repeat match goal with
             | |- context [if ?c then _ else _] => is_var c; destruct c; cbn [negb orb andb]
             | |- context [negb ?c] => is_var c; destruct c; cbn [negb orb andb]
             | |- context [orb ?c _] => is_var c; destruct c; cbn [negb orb andb]
             end; reflexivity.
  Qed.

  Lemma gen_val_proposal : forall p,
    let ext := check_ext (p_trig p) (utg (p_upk p)) in
    check_proposal utg wg p =
    verr_of ext (snd (g_val_proposal (negb (is_ok ext)) (Z.of_N (wg (p_upk p) (p_trig p))) (Z.of_N (p_wid p)))).
  Proof.
    intros. unfold check_proposal, g_val_proposal, seq_err. fold ext.
    destruct ext; cbn [is_ok negb]; gen_split; cbn [verr_of snd]; try reflexivity; try (exfalso; lia).
  Qed.


  Lemma gen_val_obs_perf_body : forall seen r t,
    let inner := check_result utg wg r in
    check_results utg wg seen (r :: t) =
    match g_val_obs_perf_body (negb (is_ok inner)) (memN (r_wid r) seen) with
    | ([1], Fall) => check_results utg wg (r_wid r :: seen) t
    | (_, l) => verr_of inner l
    end.
  Proof.
    intros. cbn [check_results]. unfold g_val_obs_perf_body, seq_err. fold inner.
    destruct inner, (memN (r_wid r) seen); reflexivity.
  Qed.

  Lemma gen_val_obs_prop_body : forall seen p t,
    let inner := check_proposal utg wg p in
    let d := g_val_obs_prop_body (negb (is_ok inner)) (memN (p_wid p) seen) (Z.of_N (utg (p_upk p))) (Z.of_N ut_cond) (Z.of_N ut_log) in
    check_proposals utg wg seen (p :: t) =
    match d with
    | (1 :: _, Fall) => check_proposals utg wg (p_wid p :: seen) t
    | (_, l) => verr_of inner l
    end
    (* and the two counters: a proposal is counted as conditional / log exactly by its upkeep type *)
    /\ (snd d = Fall -> existsb (Z.eqb 2) (fst d) = (utg (p_upk p) =? ut_cond)%N
                        /\ existsb (Z.eqb 3) (fst d) = ((utg (p_upk p) =? ut_log)%N && negb (utg (p_upk p) =? ut_cond)%N)).
  Proof.
    intros. subst d. cbn [check_proposals]. unfold g_val_obs_prop_body, seq_err, ut_cond, ut_log. fold inner.
    destruct inner, (memN (p_wid p) seen); cbn [is_ok negb];
      gen_split; cbn [fst snd existsb Z.eqb Pos.eqb orb andb negb verr_of];
      split; try reflexivity; try (intro; discriminate); try (intros _; split; reflexivity); try (exfalso; lia).
  Qed.



End V.
