(* The hand-written retry-queue model takes exactly the decisions of pkg/v3/stores/retry_queue.go as /verif/gen
   translated them from /repo's current sources (Gen/GeneratedTr.v). *)
From Coq Require Import ZArith NArith Bool List Lia ZifyBool ZifyN ZifyNat.
From Verif Require Import Base.GenIR Gen.GeneratedTr Model.RetryQueue.
Import ListNotations.
Open Scope Z_scope.

Definition has (a : Z) (l : list Z) : bool := existsb (Z.eqb a) l.

(* Enqueue, loop body.  Actions: 1 fresh record {payload, createdAt := now}, 2 payload replaced, 3 updatedAt := now,
   4 pending := false, 5 interval := the record's, 6 interval := the queue default, 7 store.  The model's enqueue1
   is the interpretation; [r0] is the record the decisions are taken on (the stored one, or the fresh one). *)
Lemma gen_rq_enqueue_body : forall divl now q p ivl,
  let f := rq_find q (pl_wid p) in
  let r0 := match f with Some r => r | None => mkRec p 0 false now now end in
  let d := g_rq_enqueue_body (match f with Some _ => true | None => false end)
                             (Z.of_N (pl_blk p)) (Z.of_N (pl_blk (q_pl r0))) ivl in
  snd d = Fall
  /\ has 1 (fst d) = (match f with Some _ => false | None => true end)
  /\ has 3 (fst d) = true /\ has 4 (fst d) = true /\ has 7 (fst d) = true
  /\ has 6 (fst d) = negb (has 5 (fst d))
  /\ enqueue1 divl now q (p, ivl) =
     rq_put q (pl_wid p) (mkRec (if has 2 (fst d) then p else q_pl r0)
                                (if has 5 (fst d) then ivl else divl) false (q_created r0) now).
Proof.
  intros. subst d. unfold g_rq_enqueue_body, enqueue1, eff_ivl. fold f. fold r0.
  destruct f as [r|]; cbn [negb];
    gen_split; cbn [fst snd has existsb Z.eqb orb negb Pos.eqb]; repeat split; try reflexivity; try (exfalso; lia).
Qed.

Lemma gen_rq_expired_elapsed : forall dexp r now,
  g_rq_expired (now - q_created r) dexp = ([], RetB (expired dexp r now)) /\
  g_rq_elapsed (now - q_updated r) (q_ivl r) = ([], RetB (elapsed r now)).
Proof.
  intros. unfold g_rq_expired, g_rq_elapsed, expired, elapsed. rewrite !Z.gtb_ltb. split; reflexivity.
Qed.

(* Dequeue, loop body.  Actions: 1 delete the expired record, 2 append the payload, 3 pending := true, 4 store;
   Brk = the requested number is reached.  The model's deq_visit is the interpretation. *)
Lemma gen_rq_dequeue_body : forall dexp now n q out k r,
  rq_find q k = Some r ->
  deq_visit dexp now n (q, out, false) k =
  match g_rq_dequeue_body (expired dexp r now) (q_pend r) (elapsed r now) (Z.of_nat (length (out ++ [q_pl r]))) n with
  | ([1], Fall) => (rq_remove q k, out, false)
  | ([2; 3; 4], Brk) => (rq_put q k (set_pending r), out ++ [q_pl r], true)
  | ([2; 3; 4], Fall) => (rq_put q k (set_pending r), out ++ [q_pl r], false)
  | _ => (q, out, false)
  end.
Proof.
  intros dexp now n q out k r Hf. unfold deq_visit, g_rq_dequeue_body. rewrite Hf.
  destruct (expired dexp r now), (q_pend r), (elapsed r now); try reflexivity.
  gen_split; try reflexivity; try (exfalso; lia).
Qed.

(* Size, loop body: a record counts unless it is pending or expired *)
Lemma gen_rq_size_body : forall dexp now (kr : N * rrec),
  negb (q_pend (snd kr)) && negb (expired dexp (snd kr) now) =
  match g_rq_size_body (q_pend (snd kr)) (expired dexp (snd kr) now) with ([1], Fall) => true | _ => false end.
Proof. intros. unfold g_rq_size_body. destruct (q_pend (snd kr)), (expired dexp (snd kr) now); reflexivity. Qed.
