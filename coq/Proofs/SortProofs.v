(* Insertion sort by an N-valued key: permutation, sortedness, and uniqueness of the sorted
   arrangement when keys are pairwise distinct (which is what makes it a faithful model of Go's
   unstable sort.Slice / sort.Strings at every call site where keys are distinct). *)
From Verif Require Import Base.Util Model.Outcome.
From Coq Require Import Sorting.Sorted ZifyBool ZifyN.
Open Scope N_scope.

Section S.
  Context {A : Type} (key : A -> N).

  Definition le_key (a b : A) : Prop := key a <= key b.

  Lemma insert_by_perm x l : Permutation (insert_by key x l) (x :: l).
  Proof.
    induction l as [|y t IH]; simpl; [apply Permutation_refl|].
    destruct (key x <=? key y); [apply Permutation_refl|].
    eapply Permutation_trans; [apply perm_skip; exact IH | apply perm_swap].
  Qed.

  Lemma sort_by_perm l : Permutation (sort_by key l) l.
  Proof.
    induction l as [|x t IH]; simpl; [constructor|].
    eapply Permutation_trans; [apply insert_by_perm | apply perm_skip; exact IH].
  Qed.

  Lemma insert_by_sorted x l : StronglySorted le_key l -> StronglySorted le_key (insert_by key x l).
  Proof.
    induction l as [|y t IH]; simpl; intro H.
    - constructor; constructor.
    - destruct (key x <=? key y) eqn:E.
      + constructor; [exact H|]. constructor; [unfold le_key; lia|].
        inversion H; subst. eapply Forall_impl; [|eassumption]. intros a Ha. unfold le_key in *. lia.
      + inversion H; subst. constructor; [apply IH; assumption|].
        eapply Permutation_Forall; [apply Permutation_sym, insert_by_perm|].
        constructor; [unfold le_key; lia | assumption].
  Qed.

  Lemma sort_by_sorted l : StronglySorted le_key (sort_by key l).
  Proof. induction l as [|x t IH]; simpl; [constructor | apply insert_by_sorted; exact IH]. Qed.

  (* two sorted lists that are permutations of each other, with pairwise distinct keys, are equal *)
  Lemma sorted_perm_unique l1 : forall l2,
    StronglySorted le_key l1 -> StronglySorted le_key l2 -> Permutation l1 l2 ->
    NoDup (map key l1) -> l1 = l2.
  Proof.
    induction l1 as [|a t IH]; intros l2 S1 S2 P N.
    - apply Permutation_nil in P. subst. reflexivity.
    - destruct l2 as [|b u]; [apply Permutation_sym, Permutation_nil in P; discriminate|].
      inversion S1 as [|? ? S1t F1]; subst. inversion S2 as [|? ? S2u F2]; subst.
      inversion N as [|? ? Nin Nt]; subst.
      assert (Hab : a = b).
      { assert (Ia : In a (b :: u)) by (eapply Permutation_in; [exact P | left; reflexivity]).
        assert (Ib : In b (a :: t)) by (eapply Permutation_in; [apply Permutation_sym; exact P | left; reflexivity]).
        destruct Ia as [->|Ia]; [reflexivity|]. destruct Ib as [->|Ib]; [reflexivity|].
        rewrite Forall_forall in F1, F2. pose proof (F1 _ Ib) as H1. pose proof (F2 _ Ia) as H2.
        unfold le_key in *. assert (E : key a = key b) by lia.
        exfalso. apply Nin. rewrite E. apply in_map. exact Ib. }
      subst b. f_equal. apply IH; try assumption.
      eapply Permutation_cons_inv. exact P.
  Qed.

  Lemma NoDup_map_perm (l1 l2 : list A) : Permutation l1 l2 -> NoDup (map key l1) -> NoDup (map key l2).
  Proof. intros P N. eapply Permutation_NoDup; [apply Permutation_map; exact P | exact N]. Qed.

  (* any correct sorting procedure returns what insertion sort returns *)
  Theorem sort_by_unique l s :
    NoDup (map key l) -> Permutation s l -> StronglySorted le_key s -> s = sort_by key l.
  Proof.
    intros N P S. apply sorted_perm_unique; try assumption.
    - apply sort_by_sorted.
    - eapply Permutation_trans; [exact P | apply Permutation_sym, sort_by_perm].
    - eapply NoDup_map_perm; [apply Permutation_sym; exact P | exact N].
  Qed.

  Theorem sort_by_perm_indep l1 l2 :
    NoDup (map key l1) -> Permutation l1 l2 -> sort_by key l1 = sort_by key l2.
  Proof.
    intros N P. apply sort_by_unique.
    - eapply NoDup_map_perm; eassumption.
    - eapply Permutation_trans; [apply sort_by_perm | exact P].
    - apply sort_by_sorted.
  Qed.

  Lemma sort_by_In x l : In x (sort_by key l) <-> In x l.
  Proof.
    split; intro H; eapply Permutation_in; try exact H;
      [apply sort_by_perm | apply Permutation_sym, sort_by_perm].
  Qed.

  Lemma sort_by_length l : length (sort_by key l) = length l.
  Proof. apply Permutation_length, sort_by_perm. Qed.

  (* firstn of a sorted list: what is cut off is not smaller than anything kept *)
  Lemma firstn_sorted_cut n l x :
    StronglySorted le_key l -> In x l -> ~ In x (firstn n l) ->
    (n <= length l)%nat /\ forall y, In y (firstn n l) -> key y <= key x.
  Proof.
    revert n. induction l as [|a t IH]; intros n S Hx Hn; [destruct Hx|].
    destruct n as [|n]; simpl in *.
    - split; [lia | intros y []].
    - inversion S as [|? ? St Fa]; subst.
      destruct Hx as [->|Hx]; [exfalso; apply Hn; left; reflexivity|].
      assert (Hn' : ~ In x (firstn n t)) by (intro H; apply Hn; right; exact H).
      destruct (IH n St Hx Hn') as [Hl Hy]. split; [lia|].
      intros y [->|Hy']; [|apply Hy; exact Hy'].
      rewrite Forall_forall in Fa. apply Fa. exact Hx.
  Qed.
End S.
