(* Lemmas for C19 (simulated chain). *)
From Coq Require Import Sorting.Sorted ZifyBool ZifyNat ZifyN.
From Verif Require Import Base.Util Model.SimChain.
Open Scope N_scope.

(* ------------------------------------------------------------------------------ *)
(* 1. The two string orders are strict total orders. *)

Lemma str_eqb_eq a b : str_eqb a b = true <-> a = b.
Proof. apply list_eqb_eq. intros x y. apply N.eqb_eq. Qed.

Lemma str_eqb_refl a : str_eqb a a = true.
Proof. apply str_eqb_eq. reflexivity. Qed.

Lemma str_eqb_neq a b : str_eqb a b = false <-> a <> b.
Proof.
  split.
  - intros H E. apply str_eqb_eq in E. congruence.
  - intro H. destruct (str_eqb a b) eqn:E; [apply str_eqb_eq in E; contradiction | reflexivity].
Qed.

Lemma str_ltb_irrefl a : str_ltb a a = false.
Proof. induction a as [|x a IH]; simpl; [reflexivity|]. rewrite N.ltb_irrefl. exact IH. Qed.

Lemma str_ltb_trans a : forall b c, str_ltb a b = true -> str_ltb b c = true -> str_ltb a c = true.
Proof.
  induction a as [|x a IH]; intros [|y b] [|z c]; simpl; try discriminate; try reflexivity.
  destruct (x <? y) eqn:Exy; destruct (y <? z) eqn:Eyz; destruct (y <? x) eqn:Eyx;
    destruct (z <? y) eqn:Ezy; destruct (x <? z) eqn:Exz; destruct (z <? x) eqn:Ezx;
    try discriminate; try reflexivity; intros H1 H2; try lia.
  eapply IH; eassumption.
Qed.

Lemma str_ltb_total a : forall b, a = b \/ str_ltb a b = true \/ str_ltb b a = true.
Proof.
  induction a as [|x a IH]; intros [|y b]; simpl; auto.
  destruct (x <? y) eqn:Exy; auto. destruct (y <? x) eqn:Eyx; auto.
  assert (x = y) by lia. subst. destruct (IH b) as [H|[H|H]]; auto. subst. auto.
Qed.

Lemma keyless_irrefl a : keyless a a = false.
Proof. unfold keyless. rewrite Nat.eqb_refl. apply str_ltb_irrefl. Qed.

Lemma keyless_trans a b c : keyless a b = true -> keyless b c = true -> keyless a c = true.
Proof.
  unfold keyless.
  destruct (Nat.eqb (length a) (length b)) eqn:E1; destruct (Nat.eqb (length b) (length c)) eqn:E2;
    destruct (Nat.eqb (length a) (length c)) eqn:E3; intros H1 H2; try lia.
  eapply str_ltb_trans; eassumption.
Qed.

Lemma keyless_total a b : a = b \/ keyless a b = true \/ keyless b a = true.
Proof.
  unfold keyless. rewrite (Nat.eqb_sym (length b)).
  destruct (Nat.eqb (length a) (length b)) eqn:E.
  - apply str_ltb_total.
  - right. lia.
Qed.

(* ------------------------------------------------------------------------------ *)
(* 2. Insertion sort over a strict total order. *)

Section Sorted.
  Variable lt : str -> str -> bool.
  Hypothesis lt_irrefl : forall a, lt a a = false.
  Hypothesis lt_trans : forall a b c, lt a b = true -> lt b c = true -> lt a c = true.
  Hypothesis lt_total : forall a b, a = b \/ lt a b = true \/ lt b a = true.

  Definition ltP (a b : str) : Prop := lt a b = true.

  Lemma insert_perm k l : Permutation (insert lt k l) (k :: l).
  Proof.
    induction l as [|x t IH]; simpl; [reflexivity|].
    destruct (lt k x); [reflexivity|].
    rewrite IH. apply perm_swap.
  Qed.

  Lemma insert_in k l x : In x (insert lt k l) <-> x = k \/ In x l.
  Proof.
    split; intro H.
    - apply (Permutation_in _ (insert_perm k l)) in H. destruct H; auto.
    - apply (Permutation_in _ (Permutation_sym (insert_perm k l))). destruct H; [left; auto | right; auto].
  Qed.

  Lemma insert_sorted k l : StronglySorted ltP l -> ~ In k l -> StronglySorted ltP (insert lt k l).
  Proof.
    induction l as [|x t IH]; simpl; intros Hs Hn.
    - constructor; constructor.
    - inversion Hs as [|? ? Hst Hall]; subst.
      destruct (lt k x) eqn:E.
      + constructor; [exact Hs|]. constructor; [exact E|].
        eapply Forall_impl; [|exact Hall]. intros y Hy. unfold ltP in *. eapply lt_trans; eassumption.
      + assert (Hxk : lt x k = true).
        { destruct (lt_total k x) as [H|[H|H]]; [subst; exfalso; apply Hn; left; reflexivity | congruence | exact H]. }
        constructor.
        * apply IH; [exact Hst | intro H; apply Hn; right; exact H].
        * apply Forall_forall. intros y Hy. apply insert_in in Hy. destruct Hy as [->|Hy]; [exact Hxk|].
          rewrite Forall_forall in Hall. apply Hall. exact Hy.
  Qed.

  Lemma sort_keys_perm l : Permutation (sort_keys lt l) l.
  Proof.
    induction l as [|x t IH]; simpl; [reflexivity|].
    rewrite insert_perm. constructor. exact IH.
  Qed.

  Lemma sort_keys_sorted l : NoDup l -> StronglySorted ltP (sort_keys lt l).
  Proof.
    induction l as [|x t IH]; simpl; intro Hn; [constructor|].
    inversion Hn; subst. apply insert_sorted; [apply IH; assumption|].
    intro H. apply (Permutation_in _ (sort_keys_perm t)) in H. contradiction.
  Qed.

  Lemma sorted_NoDup l : StronglySorted ltP l -> NoDup l.
  Proof.
    induction 1 as [|x t Hs IH Hall]; constructor; [|exact IH].
    intro Hin. rewrite Forall_forall in Hall. specialize (Hall _ Hin). unfold ltP in Hall.
    rewrite lt_irrefl in Hall. discriminate.
  Qed.

  Lemma sorted_perm_eq : forall l1 l2,
    StronglySorted ltP l1 -> StronglySorted ltP l2 -> Permutation l1 l2 -> l1 = l2.
  Proof.
    induction l1 as [|x t1 IH]; intros l2 H1 H2 Hp.
    - apply Permutation_nil in Hp. subst. reflexivity.
    - destruct l2 as [|y t2]; [apply Permutation_sym, Permutation_nil in Hp; discriminate|].
      inversion H1 as [|? ? Hs1 Ha1]; inversion H2 as [|? ? Hs2 Ha2]; subst.
      rewrite Forall_forall in Ha1, Ha2.
      assert (x = y).
      { assert (Hx : In x (y :: t2)) by (eapply Permutation_in; [exact Hp | left; reflexivity]).
        assert (Hy : In y (x :: t1)) by (eapply Permutation_in; [apply Permutation_sym; exact Hp | left; reflexivity]).
        destruct Hx as [Hx|Hx]; [auto|]. destruct Hy as [Hy|Hy]; [auto|].
        specialize (Ha1 _ Hy). specialize (Ha2 _ Hx). unfold ltP in *.
        pose proof (lt_trans _ _ _ Ha1 Ha2) as C. rewrite lt_irrefl in C. discriminate. }
      subst. f_equal. apply IH; try assumption. eapply Permutation_cons_inv. exact Hp.
  Qed.
End Sorted.

(* two comparisons that agree on a list sort it identically *)
Lemma insert_ext lt1 lt2 k l :
  (forall x, In x l -> lt1 k x = lt2 k x) -> insert lt1 k l = insert lt2 k l.
Proof.
  induction l as [|x t IH]; simpl; intro H; [reflexivity|].
  rewrite (H x) by (left; reflexivity). destruct (lt2 k x); [reflexivity|].
  f_equal. apply IH. intros y Hy. apply H. right. exact Hy.
Qed.

Lemma insert_in_gen lt k l x : In x (insert lt k l) -> x = k \/ In x l.
Proof.
  induction l as [|y t IH]; simpl.
  - intros [H|[]]; auto.
  - destruct (lt k y); simpl; intros [H|H]; auto. destruct (IH H); auto.
Qed.

Lemma sort_keys_in_gen lt l x : In x (sort_keys lt l) -> In x l.
Proof.
  induction l as [|y t IH]; simpl; [auto|].
  intro H. apply insert_in_gen in H. destruct H; auto.
Qed.

Lemma sort_keys_ext lt1 lt2 l :
  (forall x y, In x l -> In y l -> lt1 x y = lt2 x y) -> sort_keys lt1 l = sort_keys lt2 l.
Proof.
  induction l as [|x t IH]; simpl; intro H; [reflexivity|].
  rewrite IH by (intros; apply H; right; assumption).
  apply insert_ext. intros y Hy. apply H; [left; reflexivity | right; eapply sort_keys_in_gen; exact Hy].
Qed.

(* ------------------------------------------------------------------------------ *)
(* 3. lookup / update *)

Section Map.
  Variable V : Type.

  Lemma lookup_update_same k (v : V) vals : lookup k (update k v vals) = Some v.
  Proof.
    induction vals as [|[k' v'] t IH]; simpl.
    - rewrite str_eqb_refl. reflexivity.
    - destruct (str_eqb k k') eqn:E; simpl; [rewrite str_eqb_refl; reflexivity|].
      rewrite E. exact IH.
  Qed.

  Lemma lookup_update_other k k2 (v : V) vals : k2 <> k -> lookup k2 (update k v vals) = lookup k2 vals.
  Proof.
    intro Hne. induction vals as [|[k' v'] t IH]; simpl.
    - apply str_eqb_neq in Hne. rewrite Hne. reflexivity.
    - destruct (str_eqb k k') eqn:E; simpl.
      + apply str_eqb_eq in E. subst k'. apply str_eqb_neq in Hne. rewrite Hne. reflexivity.
      + destruct (str_eqb k2 k'); [reflexivity | exact IH].
  Qed.
End Map.

(* ------------------------------------------------------------------------------ *)
(* 4. Decimal keys: shortlex order on key_of coincides with the numeric order. *)

Definition valacc (acc : N) (l : list N) : N := fold_left (fun a d => 10 * a + d) l acc.
Definition value (l : list N) : N := valacc 0 l.

Lemma valacc_cons acc d l : valacc acc (d :: l) = valacc (10 * acc + d) l.
Proof. reflexivity. Qed.

Lemma valacc_split : forall l acc, valacc acc l = acc * 10 ^ N.of_nat (length l) + valacc 0 l.
Proof.
  induction l as [|d l IH]; intro acc.
  - unfold valacc. simpl. lia.
  - rewrite !valacc_cons. rewrite IH. rewrite (IH (10 * 0 + d)).
    replace (N.of_nat (length (d :: l))) with (N.succ (N.of_nat (length l))) by (simpl length; lia).
    rewrite N.pow_succ_r'. lia.
Qed.

Lemma value_cons x l : value (x :: l) = x * 10 ^ N.of_nat (length l) + value l.
Proof. unfold value. rewrite valacc_cons, valacc_split. lia. Qed.

Lemma value_snoc l d : value (l ++ [d]) = 10 * value l + d.
Proof. unfold value, valacc. rewrite fold_left_app. reflexivity. Qed.

Definition isdig (l : list N) : Prop := Forall (fun d => d < 10) l.

Lemma value_bound l : isdig l -> value l < 10 ^ N.of_nat (length l).
Proof.
  induction 1 as [|x l Hx Hl IH].
  - unfold value, valacc. simpl. lia.
  - rewrite value_cons.
    replace (N.of_nat (length (x :: l))) with (N.succ (N.of_nat (length l))) by (simpl length; lia).
    rewrite N.pow_succ_r'. nia.
Qed.

Lemma lex_value : forall a b, length a = length b -> isdig a -> isdig b ->
  (str_ltb a b = true <-> value a < value b).
Proof.
  induction a as [|x a IH]; intros [|y b] Hl Ha Hb; simpl in Hl; try discriminate.
  - simpl. unfold value, valacc. simpl. split; [discriminate | lia].
  - inversion Ha; inversion Hb; subst. injection Hl as Hl.
    rewrite !value_cons. rewrite Hl.
    pose proof (value_bound a H2) as Ba. pose proof (value_bound b H6) as Bb. rewrite Hl in Ba.
    set (P := 10 ^ N.of_nat (length b)) in *.
    simpl. destruct (x <? y) eqn:E1.
    + split; [intros _ | reflexivity]. assert (x + 1 <= y) by lia. nia.
    + destruct (y <? x) eqn:E2.
      * split; [discriminate|]. intro H. exfalso. assert (y + 1 <= x) by lia. nia.
      * assert (x = y) by lia. subst y. rewrite (IH b Hl H2 H6). lia.
Qed.

(* well-formed decimal numeral: non-empty, digits, no leading zero unless it is "0" *)
Definition wfnum (l : list N) : Prop := l <> [] /\ isdig l /\ (hd 0 l = 0 -> l = [0]).

Lemma digits_fuel_value : forall f n, n < 2 ^ N.of_nat f -> value (digits_fuel (S f) n) = n.
Proof.
  induction f as [|f IH]; intros n Hn.
  - simpl in Hn. assert (n = 0) by lia. subst. reflexivity.
  - change (digits_fuel (S (S f)) n) with (if n <? 10 then [n] else digits_fuel (S f) (n / 10) ++ [n mod 10]).
    destruct (n <? 10) eqn:E.
    + unfold value, valacc. simpl. lia.
    + rewrite value_snoc. rewrite IH.
      * pose proof (N.div_mod n 10). lia.
      * replace (N.of_nat (S f)) with (N.succ (N.of_nat f)) in Hn by lia. rewrite N.pow_succ_r' in Hn.
        apply N.div_lt_upper_bound; lia.
Qed.

Lemma digits_fuel_wf : forall f n, n < 2 ^ N.of_nat f -> wfnum (digits_fuel (S f) n).
Proof.
  induction f as [|f IH]; intros n Hn.
  - simpl in Hn. assert (n = 0) by lia. subst. simpl. repeat split; [discriminate | repeat constructor].
  - change (digits_fuel (S (S f)) n) with (if n <? 10 then [n] else digits_fuel (S f) (n / 10) ++ [n mod 10]).
    destruct (n <? 10) eqn:E.
    + repeat split; [discriminate | repeat constructor; lia | simpl; intro; subst; reflexivity].
    + assert (Hq : n / 10 < 2 ^ N.of_nat f).
      { replace (N.of_nat (S f)) with (N.succ (N.of_nat f)) in Hn by lia. rewrite N.pow_succ_r' in Hn.
        apply N.div_lt_upper_bound; lia. }
      destruct (IH _ Hq) as [Hne [Hd Hz]]. pose proof (digits_fuel_value f _ Hq) as Hv.
      repeat split.
      * intro H. apply app_eq_nil in H. destruct H. discriminate.
      * apply Forall_app. split; [exact Hd|]. constructor; [|constructor]. apply N.mod_lt. lia.
      * intro H0. exfalso.
        destruct (digits_fuel (S f) (n / 10)) as [|h t] eqn:Ed; [contradiction|].
        simpl in H0. subst h. specialize (Hz eq_refl). rewrite Hz in Hv.
        unfold value, valacc in Hv. simpl in Hv.
        assert (1 <= n / 10) by (apply N.div_le_lower_bound; lia). lia.
Qed.

Lemma size_nat_bound n : n < 2 ^ N.of_nat (N.size_nat n).
Proof.
  destruct n as [|p]; [simpl; lia|]. simpl N.size_nat.
  induction p as [p IH|p IH|]; simpl Pos.size_nat.
  - replace (N.of_nat (S (Pos.size_nat p))) with (N.succ (N.of_nat (Pos.size_nat p))) by lia.
    rewrite N.pow_succ_r'. lia.
  - replace (N.of_nat (S (Pos.size_nat p))) with (N.succ (N.of_nat (Pos.size_nat p))) by lia.
    rewrite N.pow_succ_r'. lia.
  - simpl. lia.
Qed.

Lemma digits_value n : value (digits n) = n.
Proof. apply digits_fuel_value. apply size_nat_bound. Qed.

Lemma digits_wf n : wfnum (digits n).
Proof. apply digits_fuel_wf. apply size_nat_bound. Qed.

Lemma digits_inj a b : digits a = digits b -> a = b.
Proof. intro H. rewrite <- (digits_value a), <- (digits_value b), H. reflexivity. Qed.

Lemma wfnum_lead l : wfnum l -> (2 <= length l)%nat -> 10 ^ N.of_nat (length l - 1) <= value l.
Proof.
  intros [Hne [Hd Hz]] Hl. destruct l as [|x t]; [contradiction|].
  rewrite value_cons. simpl length. replace (S (length t) - 1)%nat with (length t) by lia.
  assert (x <> 0). { intro; subst. simpl in Hz. specialize (Hz eq_refl). rewrite Hz in Hl. simpl in Hl. lia. }
  assert (1 <= x) by lia. nia.
Qed.

Lemma shortlen_value a b : wfnum a -> wfnum b -> (length a < length b)%nat -> value a < value b.
Proof.
  intros Ha Hb Hl. destruct Ha as [Hne [Hd _]].
  assert (1 <= length a)%nat by (destruct a; [contradiction | simpl; lia]).
  pose proof (value_bound a Hd) as B1.
  pose proof (wfnum_lead b Hb ltac:(lia)) as B2.
  assert (10 ^ N.of_nat (length a) <= 10 ^ N.of_nat (length b - 1)) by (apply N.pow_le_mono_r; lia).
  lia.
Qed.

Lemma str_ltb_shift a : forall b, str_ltb (map (fun d => 48 + d) a) (map (fun d => 48 + d) b) = str_ltb a b.
Proof.
  induction a as [|x a IH]; intros [|y b]; cbn [str_ltb map]; try reflexivity.
  rewrite IH. destruct (x <? y) eqn:E1; destruct (y <? x) eqn:E2;
    destruct (48 + x <? 48 + y) eqn:E3; destruct (48 + y <? 48 + x) eqn:E4; try reflexivity; lia.
Qed.

Lemma keyless_key_of a b : keyless (key_of a) (key_of b) = true <-> a < b.
Proof.
  pose proof (digits_wf a) as Wa. pose proof (digits_wf b) as Wb.
  assert (G : keyless (key_of a) (key_of b) = true <-> value (digits a) < value (digits b)).
  { unfold keyless, key_of. rewrite !map_length, str_ltb_shift.
    destruct (Nat.eqb (length (digits a)) (length (digits b))) eqn:E.
    - apply Nat.eqb_eq in E. apply lex_value; [exact E | apply Wa | apply Wb].
    - apply Nat.eqb_neq in E. destruct (Nat.ltb (length (digits a)) (length (digits b))) eqn:L.
      + apply Nat.ltb_lt in L. split; [intros _ | reflexivity]. apply shortlen_value; assumption.
      + apply Nat.ltb_ge in L. split; [discriminate|]. intro H. exfalso.
        assert (value (digits b) < value (digits a)) by (apply shortlen_value; [assumption | assumption | lia]). lia. }
  rewrite !digits_value in G. exact G.
Qed.

Lemma key_of_inj a b : key_of a = key_of b -> a = b.
Proof.
  unfold key_of. intro H. apply digits_inj.
  revert H. generalize (digits a) (digits b). induction l as [|x l IH]; intros [|y l2]; cbn [map]; try discriminate; auto.
  intro H. pose proof (f_equal (hd 0) H) as H1. pose proof (f_equal (@tl N) H) as H2. cbn [hd tl] in H1, H2.
  f_equal; [lia | apply IH; exact H2].
Qed.

(* ------------------------------------------------------------------------------ *)
(* 5. A SortedKeyMap fed with (number, value) pairs under decimal keys. *)

Lemma firstn_In {A} n (l : list A) x : In x (firstn n l) -> In x l.
Proof. intro H. rewrite <- (firstn_skipn n l). apply in_app_iff. left. exact H. Qed.

Lemma fold_left_map {A B C} (f : A -> B -> A) (g : C -> B) l : forall a,
  fold_left f (map g l) a = fold_left (fun a x => f a (g x)) l a.
Proof. induction l as [|x l IH]; intro a; simpl; [reflexivity | apply IH]. Qed.

Lemma SS_perm_eq {A} (R : A -> A -> Prop) :
  (forall a, ~ R a a) -> (forall a b c, R a b -> R b c -> R a c) ->
  forall l1 l2, StronglySorted R l1 -> StronglySorted R l2 -> Permutation l1 l2 -> l1 = l2.
Proof.
  intros Rirr Rtr. induction l1 as [|x t1 IH]; intros l2 H1 H2 Hp.
  - apply Permutation_nil in Hp. subst. reflexivity.
  - destruct l2 as [|y t2]; [apply Permutation_sym, Permutation_nil in Hp; discriminate|].
    inversion H1 as [|? ? Hs1 Ha1]; inversion H2 as [|? ? Hs2 Ha2]; subst.
    rewrite Forall_forall in Ha1, Ha2.
    assert (x = y).
    { assert (Hx : In x (y :: t2)) by (eapply Permutation_in; [exact Hp | left; reflexivity]).
      assert (Hy : In y (x :: t1)) by (eapply Permutation_in; [apply Permutation_sym; exact Hp | left; reflexivity]).
      destruct Hx as [Hx|Hx]; [auto|]. destruct Hy as [Hy|Hy]; [auto|].
      exfalso. apply (Rirr x). eapply Rtr; [apply Ha1; exact Hy | apply Ha2; exact Hx]. }
    subst. f_equal. apply IH; try assumption. eapply Permutation_cons_inv. exact Hp.
Qed.

Section KV.
  Variable V : Type.

  Fixpoint lastv_acc (n : N) (items : list (N * V)) (acc : option V) : option V :=
    match items with
    | [] => acc
    | p :: t => lastv_acc n t (if N.eqb (fst p) n then Some (snd p) else acc)
    end.
  Definition lastv (n : N) (items : list (N * V)) : option V := lastv_acc n items None.

  Lemma lastv_acc_snoc n p : forall l acc,
    lastv_acc n (l ++ [p]) acc = if N.eqb (fst p) n then Some (snd p) else lastv_acc n l acc.
  Proof. induction l as [|x l IH]; intro acc; simpl; [reflexivity | apply IH]. Qed.

  Lemma lastv_acc_some n : forall l acc v,
    lastv_acc n l acc = Some v -> In (n, v) l \/ acc = Some v.
  Proof.
    induction l as [|[m w] l IH]; intros acc v H; simpl in H; [right; exact H|].
    apply IH in H. destruct H as [H|H]; [left; right; exact H|].
    destruct (N.eqb m n) eqn:E; [|right; exact H].
    injection H as <-. left. left. apply N.eqb_eq in E. subst. reflexivity.
  Qed.

  Lemma lastv_acc_none n : forall l acc,
    lastv_acc n l acc = None -> acc = None /\ forall v, ~ In (n, v) l.
  Proof.
    induction l as [|[m w] l IH]; intros acc H; simpl in H; [split; [exact H | intros ? []]|].
    apply IH in H. destruct H as [H1 H2]. destruct (N.eqb m n) eqn:E; [discriminate|].
    split; [exact H1|]. intros v [Hv|Hv]; [injection Hv as -> _; rewrite N.eqb_refl in E; discriminate | exact (H2 v Hv)].
  Qed.

  Lemma lastv_some n l v : lastv n l = Some v -> In (n, v) l.
  Proof. intro H. apply lastv_acc_some in H. destruct H as [H|H]; [exact H | discriminate]. Qed.

  Lemma lastv_none n l : lastv n l = None -> forall v, ~ In (n, v) l.
  Proof. intro H. apply lastv_acc_none in H. apply H. Qed.

  Lemma lastv_in n l v : In (n, v) l -> exists v', lastv n l = Some v'.
  Proof.
    intro Hin. destruct (lastv n l) eqn:E; [eexists; reflexivity|].
    exfalso. eapply lastv_none; eassumption.
  Qed.

  Variable lt : str -> str -> bool.
  Hypothesis lt_irrefl : forall a, lt a a = false.
  Hypothesis lt_trans : forall a b c, lt a b = true -> lt b c = true -> lt a c = true.
  Hypothesis lt_total : forall a b, a = b \/ lt a b = true \/ lt b a = true.

  Definition kv_step (m : skm V) (p : N * V) : skm V := skm_set lt m (key_of (fst p)) (snd p).
  Definition kv_state (items : list (N * V)) : skm V := fold_left kv_step items skm_empty.

  Record inv (items : list (N * V)) (m : skm V) : Prop := mkInv {
    inv_sorted : StronglySorted (ltP lt) (sk_keys m);
    inv_keys : forall k, In k (sk_keys m) <-> In k (map (fun p => key_of (fst p)) items);
    inv_vals : forall n, lookup (key_of n) (sk_vals m) = lastv n items }.

  Lemma inv_empty : inv [] skm_empty.
  Proof. constructor; simpl; [constructor | tauto | reflexivity]. Qed.

  Lemma inv_step items m p : inv items m -> inv (items ++ [p]) (kv_step m p).
  Proof.
    intros [Hs Hk Hv]. unfold kv_step, skm_set. destruct p as [pn pv]. cbn [fst snd].
    assert (Hvals : forall n, lookup (key_of n) (update (key_of pn) pv (sk_vals m)) = lastv n (items ++ [(pn, pv)])).
    { intro n. unfold lastv. rewrite lastv_acc_snoc. cbn [fst snd]. destruct (N.eqb pn n) eqn:E.
      - apply N.eqb_eq in E. subst n. apply lookup_update_same.
      - rewrite lookup_update_other; [apply Hv|]. intro H. apply key_of_inj in H. apply N.eqb_neq in E. congruence. }
    destruct (lookup (key_of pn) (sk_vals m)) eqn:El; constructor; cbn [sk_keys sk_vals]; try exact Hvals.
    - exact Hs.
    - intro k. rewrite map_app, in_app_iff, Hk. cbn [map fst]. split; [auto|].
      intros [H|[H|[]]]; [exact H|]. subst k.
      rewrite Hv in El. apply lastv_some in El.
      apply in_map_iff. exists (pn, v). split; [reflexivity | exact El].
    - apply sort_keys_sorted; try assumption.
      apply NoDup_snoc; [eapply sorted_NoDup; eassumption|].
      rewrite Hk. intro H. apply in_map_iff in H. destruct H as [[qn qv] [Hq Hin]]. cbn [fst] in Hq.
      apply key_of_inj in Hq. subst qn. rewrite Hv in El. eapply lastv_none; eassumption.
    - intro k. split; intro H.
      + apply (Permutation_in _ (sort_keys_perm lt _)) in H. rewrite map_app, in_app_iff. cbn [map fst].
        apply in_app_iff in H. destruct H as [H|[H|[]]]; [left; apply Hk; exact H | right; left; exact H].
      + apply (Permutation_in _ (Permutation_sym (sort_keys_perm lt _))). rewrite map_app, in_app_iff in H. cbn [map fst] in H.
        apply in_app_iff. destruct H as [H|[H|[]]]; [left; apply Hk; exact H | right; left; exact H].
  Qed.

  Lemma kv_inv items : inv items (kv_state items).
  Proof.
    induction items as [|p l IH] using rev_ind; [apply inv_empty|].
    unfold kv_state. rewrite fold_left_app. simpl. apply inv_step. exact IH.
  Qed.

  (* a consistent feed: a number always comes with the same value *)
  Definition consistent (l : list (N * V)) : Prop :=
    forall n v1 v2, In (n, v1) l -> In (n, v2) l -> v1 = v2.

  Lemma lastv_same_set l1 l2 n :
    (forall p, In p l1 <-> In p l2) -> consistent l1 -> lastv n l1 = lastv n l2.
  Proof.
    intros Hset Hc. destruct (lastv n l1) as [v|] eqn:E1.
    - apply lastv_some in E1.
      destruct (lastv_in n l2 v (proj1 (Hset _) E1)) as [v' E2]. rewrite E2.
      apply lastv_some in E2. f_equal. eapply Hc; [exact E1 | apply Hset; exact E2].
    - destruct (lastv n l2) as [v'|] eqn:E2; [|reflexivity].
      apply lastv_some in E2. exfalso. eapply (lastv_none n l1 E1 v'). apply Hset. exact E2.
  Qed.

  Lemma kv_same_set l1 l2 :
    (forall p, In p l1 <-> In p l2) -> consistent l1 ->
    sk_keys (kv_state l1) = sk_keys (kv_state l2) /\
    forall n, lookup (key_of n) (sk_vals (kv_state l1)) = lookup (key_of n) (sk_vals (kv_state l2)).
  Proof.
    intros Hset Hc. destruct (kv_inv l1) as [Hs1 Hk1 Hv1]. destruct (kv_inv l2) as [Hs2 Hk2 Hv2]. split.
    - eapply sorted_perm_eq; try eassumption.
      apply NoDup_Permutation; try (eapply sorted_NoDup; eassumption).
      intro k. rewrite Hk1, Hk2, !in_map_iff. split; intros [b [H1 H2]]; exists b; (split; [exact H1 | apply Hset; exact H2]).
    - intro n. rewrite Hv1, Hv2. apply lastv_same_set; assumption.
  Qed.
End KV.

Arguments lastv {V}. Arguments kv_state {V}. Arguments consistent {V}.

(* keys that are all decimal keys come from a list of numbers *)
Lemma keys_nums (l : list str) (P : N -> Prop) :
  (forall k, In k l -> exists n, k = key_of n /\ P n) -> exists ns, l = map key_of ns /\ Forall P ns.
Proof.
  induction l as [|k t IH]; intro H.
  - exists []. split; [reflexivity | constructor].
  - destruct (H k (or_introl eq_refl)) as [n [-> Hn]].
    destruct IH as [ns [-> Hns]]; [intros; apply H; right; assumption|].
    exists (n :: ns). split; [reflexivity | constructor; assumption].
Qed.

Lemma sorted_keys_nums ns : StronglySorted (ltP keyless) (map key_of ns) -> StronglySorted N.lt ns.
Proof.
  induction ns as [|n t IH]; simpl; intro H; [constructor|].
  inversion H as [|? ? Hs Hall]; subst. constructor; [apply IH; exact Hs|].
  rewrite Forall_forall in *. intros x Hx. apply keyless_key_of. apply Hall. apply in_map. exact Hx.
Qed.

Lemma SS_app_inv {A} (R : A -> A -> Prop) l1 : forall l2,
  StronglySorted R (l1 ++ l2) ->
  StronglySorted R l1 /\ StronglySorted R l2 /\ forall a b, In a l1 -> In b l2 -> R a b.
Proof.
  induction l1 as [|x l1 IH]; intros l2 H; simpl in *.
  - split; [constructor | split; [exact H | intros ? ? []]].
  - inversion H as [|? ? Hs Hall]; subst. destruct (IH _ Hs) as [H1 [H2 H3]].
    rewrite Forall_forall in Hall. split; [|split; [exact H2|]].
    + constructor; [exact H1|]. apply Forall_forall. intros y Hy. apply Hall. apply in_app_iff. left. exact Hy.
    + intros a b [<-|Ha] Hb; [apply Hall; apply in_app_iff; right; exact Hb | apply H3; assumption].
Qed.

Lemma SS_rev {A} (R : A -> A -> Prop) l : StronglySorted R l -> StronglySorted (fun a b => R b a) (rev l).
Proof.
  induction 1 as [|x t Hs IH Hall]; simpl; [constructor|].
  rewrite Forall_forall in Hall.
  assert (G : forall l', StronglySorted (fun a b => R b a) l' -> (forall y, In y l' -> R x y) ->
                         StronglySorted (fun a b => R b a) (l' ++ [x])).
  { induction l' as [|y l' IH']; simpl; intros H1 H2; [constructor; constructor|].
    inversion H1 as [|? ? Hs' Hall']; subst. constructor; [apply IH'; auto|].
    apply Forall_app. split; [exact Hall' | constructor; [apply H2; left; reflexivity | constructor]]. }
  apply G; [exact IH|]. intros y Hy. apply Hall. apply in_rev. exact Hy.
Qed.

Lemma SS_firstn {A} (R : A -> A -> Prop) n l : StronglySorted R l -> StronglySorted R (firstn n l).
Proof.
  intro H. rewrite <- (firstn_skipn n l) in H. apply SS_app_inv in H. apply H.
Qed.

Lemma distinctN_in l x : In x (distinctN l) <-> In x l.
Proof.
  induction l as [|y t IH]; simpl; [tauto|].
  destruct (memN y t) eqn:E.
  - rewrite IH. split; [auto|]. intros [<-|H]; [apply memN_In; exact E | exact H].
  - simpl. rewrite IH. tauto.
Qed.

Lemma distinctN_NoDup l : NoDup (distinctN l).
Proof.
  induction l as [|y t IH]; simpl; [constructor|].
  destruct (memN y t) eqn:E; [exact IH|]. constructor; [|exact IH].
  rewrite distinctN_in. apply memN_false_In. exact E.
Qed.

Lemma SS_lt_NoDup ns : StronglySorted N.lt ns -> NoDup ns.
Proof.
  induction 1 as [|x t Hs IH Hall]; constructor; [|exact IH].
  intro H. rewrite Forall_forall in Hall. specialize (Hall _ H). lia.
Qed.

(* with the repaired comparison the keys are the received numbers in ascending numeric order *)
Lemma kv_char {V} (items : list (N * V)) :
  exists ns, StronglySorted N.lt ns /\ (forall n, In n ns <-> In n (map fst items)) /\
             sk_keys (kv_state keyless items) = map key_of ns /\
             forall n, lookup (key_of n) (sk_vals (kv_state keyless items)) = lastv n items.
Proof.
  destruct (kv_inv V keyless keyless_irrefl keyless_trans keyless_total items) as [Hs Hk Hv].
  destruct (keys_nums (sk_keys (kv_state keyless items)) (fun n => In n (map fst items))) as [ns [Hns Hall]].
  { intros k Hin. apply Hk in Hin. apply in_map_iff in Hin. destruct Hin as [p [<- Hp]].
    exists (fst p). split; [reflexivity | apply in_map; exact Hp]. }
  exists ns. rewrite Hns in Hs. split; [apply sorted_keys_nums; exact Hs|]. split; [|split; [exact Hns | exact Hv]].
  intro n. split; intro H.
  - rewrite Forall_forall in Hall. apply Hall. exact H.
  - apply in_map_iff in H. destruct H as [p [<- Hp]].
    assert (H : In (key_of (fst p)) (sk_keys (kv_state keyless items))) by (apply Hk; apply (in_map (fun p => key_of (fst p))); exact Hp).
    rewrite Hns in H. apply in_map_iff in H. destruct H as [n' [He Hn']]. apply key_of_inj in He. subst. exact Hn'.
Qed.

(* ------------------------------------------------------------------------------ *)
(* 6. The block history tracker. *)

Definition feed (arrival : list block) : list (N * block) := map (fun b => (b_num b, b)) arrival.

Lemma tracker_state_kv lt arrival : tracker_state lt arrival = kv_state lt (feed arrival).
Proof. unfold tracker_state, kv_state, feed. rewrite fold_left_map. reflexivity. Qed.

Lemma feed_in arrival n b : In (n, b) (feed arrival) <-> In b arrival /\ b_num b = n.
Proof.
  unfold feed. rewrite in_map_iff. split.
  - intros [b' [H1 H2]]. injection H1 as <- <-. auto.
  - intros [H1 <-]. exists b. auto.
Qed.

Definition last_with (n : N) (arrival : list block) : option block := lastv n (feed arrival).
Definition hash_of (arrival : list block) (n : N) : N :=
  match last_with n arrival with Some b => b_hash b | None => 0 end.

Lemma last_hash_lastv n : forall l acc,
  last_hash n l (option_map b_hash acc) = option_map b_hash (lastv_acc block n (feed l) acc).
Proof.
  induction l as [|x l IH]; intro acc; simpl; [reflexivity|].
  rewrite <- IH. destruct (N.eqb (b_num x) n); reflexivity.
Qed.

(* a consistent chain: one block per number *)
Definition chain_consistent (l : list block) : Prop :=
  forall b1 b2, In b1 l -> In b2 l -> b_num b1 = b_num b2 -> b1 = b2.

Lemma arrival_indep lt :
  (forall a, lt a a = false) -> (forall a b c, lt a b = true -> lt b c = true -> lt a c = true) ->
  (forall a b, a = b \/ lt a b = true \/ lt b a = true) ->
  forall l1 l2, (forall b, In b l1 <-> In b l2) -> chain_consistent l1 -> history_of lt l1 = history_of lt l2.
Proof.
  intros Hi Ht Hto l1 l2 Hset Hc. unfold history_of. rewrite !tracker_state_kv.
  destruct (kv_same_set block lt Hi Ht Hto (feed l1) (feed l2)) as [Hkeys Hvals].
  { intros [n b]. rewrite !feed_in, Hset. reflexivity. }
  { intros n v1 v2 H1 H2. apply feed_in in H1, H2. destruct H1, H2. apply Hc; congruence. }
  unfold history_at, skm_keys, skm_get. rewrite <- Hkeys. apply map_ext_in.
  intros k Hin. apply firstn_In in Hin. apply in_rev in Hin.
  destruct (kv_inv block lt Hi Ht Hto (feed l1)) as [_ Hk1 _]. apply Hk1 in Hin.
  apply in_map_iff in Hin. destruct Hin as [p [<- _]]. rewrite Hvals. reflexivity.
Qed.

(* the history of the repaired code, in terms of numbers *)
Lemma history_char arrival :
  exists ns, StronglySorted N.lt ns /\ (forall n, In n ns <-> In n (map b_num arrival)) /\
             history_of keyless arrival = map (fun n => (n, hash_of arrival n)) (firstn history_depth (rev ns)).
Proof.
  destruct (kv_char (feed arrival)) as [ns [Hs [Hin [Hns Hv]]]].
  assert (Hin' : forall n, In n ns <-> In n (map b_num arrival)).
  { intro n. rewrite Hin. unfold feed. rewrite map_map. reflexivity. }
  exists ns. split; [exact Hs|]. split; [exact Hin'|].
  unfold history_of. rewrite tracker_state_kv. unfold history_at, skm_keys, skm_get.
  rewrite Hns, <- map_rev, firstn_map, map_map.
  apply map_ext_in. intros n Hn. rewrite Hv. unfold hash_of, last_with.
  destruct (lastv n (feed arrival)) as [b|] eqn:E.
  - apply lastv_some, feed_in in E. destruct E as [_ ->]. reflexivity.
  - exfalso. apply firstn_In, in_rev, Hin' in Hn. apply in_map_iff in Hn. destruct Hn as [b [Hb1 Hb2]].
    eapply (lastv_none block n _ E b). apply feed_in. auto.
Qed.

Definition descending (l : list N) : Prop := StronglySorted (fun a b => b < a) l.

Lemma history_desc arrival : descending (map fst (history_of keyless arrival)).
Proof.
  destruct (history_char arrival) as [ns [Hs [_ ->]]]. rewrite map_map. cbn [fst]. rewrite map_id.
  apply SS_firstn. apply (SS_rev N.lt). exact Hs.
Qed.

(* the history of the pinned commit's string comparison is not descending *)
Lemma history_string_order_refuted :
  exists arrival, ~ descending (map fst (history_of str_ltb arrival)).
Proof.
  exists (map (fun n => mkBlock n n) [98; 99; 100; 101]).
  vm_compute. intro H. inversion H as [|? ? _ Hall]; subst.
  inversion Hall as [|? ? _ Hall2]; subst. inversion Hall2 as [|? ? Hlt _]; subst. discriminate.
Qed.

(* ... but it is where all keys have the same length *)
Lemma kv_state_equal_length {V} (items : list (N * V)) L :
  (forall p, In p items -> length (key_of (fst p)) = L) ->
  kv_state str_ltb items = kv_state keyless items.
Proof.
  intro Hl. unfold kv_state.
  assert (G : forall l m, (forall p, In p l -> length (key_of (fst p)) = L) -> (forall k, In k (sk_keys m) -> length k = L) ->
              fold_left (kv_step V str_ltb) l m = fold_left (kv_step V keyless) l m).
  { induction l as [|p l IH]; intros m H1 H2; simpl; [reflexivity|].
    assert (E : kv_step V str_ltb m p = kv_step V keyless m p).
    { unfold kv_step, skm_set. destruct (lookup (key_of (fst p)) (sk_vals m)); [reflexivity|].
      f_equal. apply sort_keys_ext. intros x y Hx Hy.
      assert (Lx : forall z, In z (sk_keys m ++ [key_of (fst p)]) -> length z = L).
      { intros z Hz. apply in_app_iff in Hz. destruct Hz as [Hz|[<-|[]]]; [apply H2; exact Hz | apply (H1 p); left; reflexivity]. }
      unfold keyless. rewrite (Lx x Hx), (Lx y Hy), Nat.eqb_refl. reflexivity. }
    rewrite E. apply IH; [intros; apply H1; right; assumption|].
    intros k Hk. unfold kv_step, skm_set in Hk. cbn [sk_keys] in Hk.
    destruct (lookup (key_of (fst p)) (sk_vals m)); [apply H2; exact Hk|].
    apply sort_keys_in_gen in Hk. apply in_app_iff in Hk.
    destruct Hk as [Hk|[<-|[]]]; [apply H2; exact Hk | apply (H1 p); left; reflexivity]. }
  apply G; [exact Hl | intros ? []].
Qed.

Lemma history_desc_equal_length arrival L :
  (forall b, In b arrival -> length (key_of (b_num b)) = L) ->
  descending (map fst (history_of str_ltb arrival)).
Proof.
  intro H. unfold history_of. rewrite tracker_state_kv, (kv_state_equal_length (feed arrival) L).
  - rewrite <- tracker_state_kv. apply history_desc.
  - intros [n b] Hp. apply feed_in in Hp. destruct Hp as [Hb <-]. apply H. exact Hb.
Qed.

(* Specification decided by the checker, and the model meets it. *)

Definition C19_hist_spec (arrival : list block) (obs : list (N * N)) : Prop :=
  descending (map fst obs)
  /\ (forall n h, In (n, h) obs -> last_hash n arrival None = Some h)
  /\ length obs = Nat.min history_depth (length (distinctN (map b_num arrival)))
  /\ (forall n, In n (map b_num arrival) -> In n (map fst obs) \/ forall o, In o (map fst obs) -> n < o).

Lemma strictly_desc_sorted l : strictly_desc l = true -> descending l.
Proof.
  induction l as [|x t IH]; intro H; [constructor|].
  destruct t as [|y t']; [constructor; constructor|].
  simpl in H. apply andb_true_iff in H. destruct H as [H1 H2].
  specialize (IH H2). constructor; [exact IH|].
  inversion IH as [|? ? _ Hall]; subst. constructor; [lia|].
  eapply Forall_impl; [|exact Hall]. simpl. intros. lia.
Qed.

Lemma C19_hist_check_sound arrival obs : C19_hist_check arrival obs = true -> C19_hist_spec arrival obs.
Proof.
  unfold C19_hist_check, C19_hist_spec. rewrite !andb_true_iff. intros [[[H1 H2] H3] H4].
  split; [apply strictly_desc_sorted; exact H1|]. split; [|split].
  - intros n h Hin. rewrite forallb_forall in H2. specialize (H2 _ Hin). simpl in H2.
    destruct (last_hash n arrival None); [|discriminate]. apply N.eqb_eq in H2. congruence.
  - apply Nat.eqb_eq. exact H3.
  - intros n Hn. rewrite forallb_forall in H4. specialize (H4 _ Hn). apply orb_true_iff in H4.
    destruct H4 as [H4|H4]; [left; apply memN_In; exact H4|].
    right. intros o Ho. rewrite forallb_forall in H4. specialize (H4 _ Ho). lia.
Qed.

Lemma history_meets_spec arrival : C19_hist_spec arrival (history_of keyless arrival).
Proof.
  split; [apply history_desc|].
  destruct (history_char arrival) as [ns [Hs [Hin ->]]]. split; [|split].
  - intros n h H. apply in_map_iff in H. destruct H as [n' [He Hn']]. injection He as -> <-.
    apply firstn_In, in_rev in Hn'. apply Hin in Hn'. apply in_map_iff in Hn'. destruct Hn' as [b [Hb1 Hb2]].
    change (@None N) with (option_map b_hash None). rewrite last_hash_lastv. fold (lastv n (feed arrival)).
    unfold hash_of, last_with. destruct (lastv_in block n (feed arrival) b) as [b' ->]; [apply feed_in; auto | reflexivity].
  - rewrite map_length, firstn_length, rev_length. f_equal.
    apply Permutation_length. apply NoDup_Permutation; [apply SS_lt_NoDup; exact Hs | apply distinctN_NoDup|].
    intro n. rewrite distinctN_in. apply Hin.
  - intros n Hn. rewrite map_map. cbn [fst]. rewrite map_id. apply Hin in Hn. apply in_rev in Hn.
    rewrite <- (firstn_skipn history_depth (rev ns)) in Hn. apply in_app_iff in Hn.
    destruct Hn as [Hn|Hn]; [left; exact Hn | right].
    pose proof (SS_rev N.lt ns Hs) as Hr. rewrite <- (firstn_skipn history_depth (rev ns)) in Hr.
    apply SS_app_inv in Hr. destruct Hr as [_ [_ Hr]]. intros o Ho. apply (Hr o n Ho Hn).
Qed.

(* ------------------------------------------------------------------------------ *)
(* 7. Transmit loader: one recorded event per (report, round). *)

Lemma key_eqb_eq a b : key_eqb a b = true <-> a = b.
Proof.
  destruct a, b. unfold key_eqb. simpl. rewrite andb_true_iff, !N.eqb_eq. split; [intros [-> ->]; reflexivity | intro H; injection H; auto].
Qed.

Lemma key_mem_In k l : key_mem k l = true <-> In k l.
Proof.
  unfold key_mem. rewrite existsb_exists. split.
  - intros [y [Hy He]]. apply key_eqb_eq in He. subst. exact Hy.
  - intro H. exists k. split; [exact H | apply key_eqb_eq; reflexivity].
Qed.

Lemma nodup_keys_NoDup l : nodup_keys l = true <-> NoDup l.
Proof.
  induction l as [|k t IH]; simpl; [split; [constructor | reflexivity]|].
  rewrite andb_true_iff, negb_true_iff, IH. split.
  - intros [H1 H2]. constructor; [|exact H2]. intro H. apply key_mem_In in H. congruence.
  - intro H. inversion H; subst. split; [|assumption].
    destruct (key_mem k t) eqn:E; [apply key_mem_In in E; contradiction | reflexivity].
Qed.

Lemma tx_eqb_eq a b : tx_eqb a b = true <-> a = b.
Proof.
  destruct a, b. unfold tx_eqb. simpl. rewrite !andb_true_iff, !N.eqb_eq.
  split; [intros [[-> ->] ->]; reflexivity | intro H; injection H; auto].
Qed.

Lemma tx_mem_In t l : tx_mem t l = true <-> In t l.
Proof.
  unfold tx_mem. rewrite existsb_exists. split.
  - intros [y [Hy He]]. apply tx_eqb_eq in He. subst. exact Hy.
  - intro H. exists t. split; [exact H | apply tx_eqb_eq; reflexivity].
Qed.

Definition count_true (l : list bool) : nat := length (filter (fun b => b) l).

Lemma tl_run_inv : forall ops s oks loads sf,
  tl_run s ops = (oks, loads, sf) ->
  exists acc,
    tl_done sf = tl_done s ++ acc /\
    concat loads ++ tl_queue sf = tl_queue s ++ acc /\
    length acc = count_true oks /\
    (NoDup (map tx_key (tl_done s)) -> NoDup (map tx_key (tl_done sf))) /\
    (forall t, In (OTransmit t) ops -> In (tx_key t) (map tx_key (tl_done sf))).
Proof.
  induction ops as [|op ops IH]; intros s oks loads sf H; simpl in H.
  - injection H as <- <- <-. exists []. rewrite !app_nil_r. simpl. repeat split; auto. intros ? [].
  - destruct op as [t|].
    + unfold tl_transmit in H.
      destruct (key_mem (tx_key t) (map tx_key (tl_done s))) eqn:Em.
      * destruct (tl_run s ops) as [[oks1 loads1] sf1] eqn:Er. injection H as <- <- <-.
        destruct (IH _ _ _ _ Er) as [acc [H1 [H2 [H3 [H4 H5]]]]].
        exists acc. repeat split; auto.
        intros t' [Ht|Ht]; [|apply H5; exact Ht]. injection Ht as <-.
        apply key_mem_In in Em. rewrite H1, map_app, in_app_iff. left. exact Em.
      * destruct (tl_run (mkTl (tl_queue s ++ [t]) (tl_done s ++ [t])) ops) as [[oks1 loads1] sf1] eqn:Er.
        injection H as <- <- <-.
        destruct (IH _ _ _ _ Er) as [acc [H1 [H2 [H3 [H4 H5]]]]]. simpl in H1, H2, H4.
        exists (t :: acc). rewrite <- !app_assoc in *. simpl in *. repeat split; auto.
        -- unfold count_true in *. simpl. lia.
        -- intro Hn. apply H4. rewrite map_app. simpl. apply NoDup_snoc; [exact Hn|].
           intro Hin. apply key_mem_In in Hin. congruence.
        -- intros t' [Ht|Ht]; [|apply H5; exact Ht]. injection Ht as <-.
           rewrite H1, !map_app. simpl. apply in_app_iff. right. left. reflexivity.
    + destruct (tl_run (mkTl [] (tl_done s)) ops) as [[oks1 loads1] sf1] eqn:Er. injection H as <- <- <-.
      destruct (IH _ _ _ _ Er) as [acc [H1 [H2 [H3 [H4 H5]]]]]. simpl in H1, H2, H4.
      exists acc. simpl. rewrite <- app_assoc, H2. repeat split; auto.
      intros t [Ht|Ht]; [discriminate | apply H5; exact Ht].
Qed.

Lemma transmit_once ops :
  tl_onchain ops = tl_results ops /\
  NoDup (map tx_key (tl_results ops)) /\
  (forall t, In (OTransmit t) ops -> In (tx_key t) (map tx_key (tl_results ops))) /\
  count_true (tl_accepted ops) = length (tl_results ops).
Proof.
  unfold tl_onchain, tl_results, tl_accepted.
  destruct (tl_run tl_init ops) as [[oks loads] sf] eqn:E.
  destruct (tl_run_inv _ _ _ _ _ E) as [acc [H1 [H2 [H3 [H4 H5]]]]]. simpl in *.
  subst. repeat split; auto. apply H4. constructor.
Qed.

(* n submissions of one (report, round) from any senders, interleaved with any Loads and any
   other traffic: exactly one event with that key is recorded, and exactly one is put on chain *)
Lemma NoDup_count_key k l : NoDup (map tx_key l) -> In k (map tx_key l) -> count_key k l = 1%nat.
Proof.
  unfold count_key. induction l as [|t l IH]; simpl; intros Hn Hin; [contradiction|].
  inversion Hn as [|? ? Hni Hn']; subst.
  destruct (key_eqb k (tx_key t)) eqn:E.
  - apply key_eqb_eq in E. subst k. simpl. f_equal.
    assert (G : forall l', ~ In (tx_key t) (map tx_key l') -> filter (fun t0 => key_eqb (tx_key t) (tx_key t0)) l' = []).
    { induction l' as [|x l' IH']; simpl; intro H; [reflexivity|].
      destruct (key_eqb (tx_key t) (tx_key x)) eqn:E'; [apply key_eqb_eq in E'; exfalso; apply H; left; auto|].
      apply IH'. intro; apply H; right; assumption. }
    rewrite G; [reflexivity | exact Hni].
  - destruct Hin as [Hin|Hin]; [subst; rewrite (proj2 (key_eqb_eq _ _) eq_refl) in E; discriminate|].
    apply IH; assumption.
Qed.

Lemma transmit_once_count ops t :
  In (OTransmit t) ops ->
  count_key (tx_key t) (tl_results ops) = 1%nat /\ count_key (tx_key t) (tl_onchain ops) = 1%nat.
Proof.
  intro H. destruct (transmit_once ops) as [H1 [H2 [H3 _]]]. rewrite H1.
  split; apply NoDup_count_key; auto.
Qed.

Definition C19_tx_spec (c : tx_case) : Prop :=
  let all := concat (map w_txs (tc_waves c)) in
  let onchain := concat (map w_loaded (tc_waves c)) in
  NoDup (map tx_key (tc_results c)) /\ NoDup (map tx_key onchain) /\
  (forall t, In t all -> In (tx_key t) (map tx_key (tc_results c))) /\
  (forall t, In t (tc_results c) -> In t onchain) /\
  length onchain = length (tc_results c).

Lemma C19_tx_check_sound c : C19_tx_check c = true -> C19_tx_spec c.
Proof.
  unfold C19_tx_check, C19_tx_spec. rewrite !andb_true_iff. intros [[[[[_ H1] H2] H3] H4] H5].
  split; [apply nodup_keys_NoDup; exact H1|]. split; [apply nodup_keys_NoDup; exact H2|]. split; [|split].
  - intros t Ht. rewrite forallb_forall in H3. apply key_mem_In. apply H3. exact Ht.
  - intros t Ht. rewrite forallb_forall in H4. apply tx_mem_In. apply H4. exact Ht.
  - apply Nat.eqb_eq. exact H5.
Qed.

(* ------------------------------------------------------------------------------ *)
(* 8. Report tracker: confirmations and look-back. *)

Definition rt_feed (ds : list delivery) : list (N * list tev) :=
  flat_map (fun d => match d_transmits d with Some ts => [(d_num d, ts)] | None => [] end) ds.

Definition last_num (ds : list delivery) : option N :=
  match rev ds with [] => None | d :: _ => Some (d_num d) end.

Lemma rt_feed_snoc ds d :
  rt_feed (ds ++ [d]) = rt_feed ds ++ match d_transmits d with Some ts => [(d_num d, ts)] | None => [] end.
Proof. unfold rt_feed. rewrite flat_map_app. simpl. rewrite app_nil_r. reflexivity. Qed.

Lemma last_num_snoc ds d : last_num (ds ++ [d]) = Some (d_num d).
Proof. unfold last_num. rewrite rev_app_distr. reflexivity. Qed.

Lemma rt_fold lt : forall ds s,
  fold_left (rt_deliver lt) ds s =
  mkRt (fold_left (kv_step (list tev) lt) (rt_feed ds) (rt_events s))
       (match last_num ds with Some n => Some n | None => rt_latest s end).
Proof.
  induction ds as [|d ds IH] using rev_ind; intro s.
  - simpl. destruct s; reflexivity.
  - rewrite fold_left_app. cbn [fold_left]. rewrite IH, rt_feed_snoc, last_num_snoc, fold_left_app.
    unfold rt_deliver. cbn [rt_events rt_latest].
    destruct (d_transmits d); reflexivity.
Qed.

Lemma rt_run_state lt ds :
  fold_left (rt_deliver lt) ds rt_init = mkRt (kv_state lt (rt_feed ds)) (last_num ds).
Proof. rewrite rt_fold. simpl. unfold kv_state. destruct (last_num ds); reflexivity. Qed.

(* every event carries Confirmations = latest - its block, latest being the last block delivered *)
Lemma confirmations_latest lt ds e :
  In e (rt_run lt ds) -> exists latest, last_num ds = Some latest /\ pe_conf e = (Z.of_N latest - Z.of_N (pe_block e))%Z.
Proof.
  unfold rt_run. rewrite rt_run_state. unfold rt_latest_events. cbn [rt_latest rt_events].
  destruct (last_num ds) as [latest|]; [|intros []].
  intro H. exists latest. split; [reflexivity|].
  apply in_concat in H. destruct H as [l [Hl He]]. apply in_map_iff in Hl. destruct Hl as [k [<- _]].
  destruct (skm_get _ k); [|contradiction].
  apply in_concat in He. destruct He as [l2 [Hl2 He]]. apply in_map_iff in Hl2. destruct Hl2 as [t [<- _]].
  unfold events_of in He. apply in_map_iff in He. destruct He as [r [<- _]]. reflexivity.
Qed.

Lemma insert_desc_perm n l : Permutation (insert_desc n l) (n :: l).
Proof.
  induction l as [|x t IH]; simpl; [reflexivity|].
  destruct (x <? n); [reflexivity|]. rewrite IH. apply perm_swap.
Qed.

Lemma sort_desc_perm l : Permutation (sort_desc l) l.
Proof. induction l as [|x t IH]; simpl; [reflexivity|]. rewrite insert_desc_perm. constructor. exact IH. Qed.

Lemma insert_desc_sorted n l : descending l -> ~ In n l -> descending (insert_desc n l).
Proof.
  unfold descending. induction l as [|x t IH]; simpl; intros Hs Hn; [constructor; constructor|].
  inversion Hs as [|? ? Hst Hall]; subst. destruct (x <? n) eqn:E.
  - constructor; [exact Hs|]. constructor; [lia|]. eapply Forall_impl; [|exact Hall]. simpl. intros. lia.
  - assert (n < x) by (assert (n <> x) by (intro; subst; apply Hn; left; reflexivity); lia).
    constructor; [apply IH; [exact Hst | intro; apply Hn; right; assumption]|].
    apply Forall_forall. intros y Hy. apply (Permutation_in _ (insert_desc_perm n t)) in Hy.
    destruct Hy as [<-|Hy]; [exact H|]. rewrite Forall_forall in Hall. apply Hall. exact Hy.
Qed.

Lemma sort_desc_sorted l : NoDup l -> descending (sort_desc l).
Proof.
  induction l as [|x t IH]; simpl; intro Hn; [constructor|]. inversion Hn; subst.
  apply insert_desc_sorted; [apply IH; assumption|].
  intro H. apply (Permutation_in _ (sort_desc_perm t)) in H. contradiction.
Qed.

Lemma last_transmits_lastv n : forall ds acc,
  last_transmits n ds acc = lastv_acc (list tev) n (rt_feed ds) acc.
Proof.
  induction ds as [|d ds IH]; intro acc; simpl; [reflexivity|].
  rewrite IH. unfold rt_feed at 2. simpl flat_map. fold (rt_feed ds).
  destruct (d_transmits d) as [ts|]; simpl.
  - destruct (N.eqb (d_num d) n); reflexivity.
  - destruct (N.eqb (d_num d) n); reflexivity.
Qed.

Lemma transmit_blocks_feed ds n : In n (transmit_blocks ds) <-> In n (map fst (rt_feed ds)).
Proof.
  unfold transmit_blocks. rewrite distinctN_in. unfold rt_feed.
  induction ds as [|d ds IH]; simpl; [tauto|].
  destruct (d_transmits d) as [ts|]; simpl; rewrite IH; tauto.
Qed.

(* the repaired code returns exactly the events of the [report_range] highest transmit-bearing
   blocks, newest block first *)
Lemma rt_run_expected ds : rt_run keyless ds = expected_events ds.
Proof.
  unfold rt_run. rewrite rt_run_state. unfold rt_latest_events, expected_events, last_num. cbn [rt_latest rt_events].
  destruct (rev ds) as [|dl r] eqn:Er; [reflexivity|].
  destruct (kv_char (rt_feed ds)) as [ns [Hs [Hin [Hns Hv]]]].
  unfold skm_keys, skm_get. rewrite Hns, <- map_rev, firstn_map, map_map.
  assert (Hrev : rev ns = sort_desc (transmit_blocks ds)).
  { apply (SS_perm_eq (fun a b => b < a)); [intros; lia | intros; lia | | |].
    - apply (SS_rev N.lt). exact Hs.
    - apply sort_desc_sorted. apply distinctN_NoDup.
    - rewrite sort_desc_perm, <- Permutation_rev.
      apply NoDup_Permutation; [apply SS_lt_NoDup; exact Hs | apply distinctN_NoDup|].
      intro n. rewrite Hin. symmetry. apply transmit_blocks_feed. }
  rewrite Hrev. f_equal. apply map_ext. intro n. rewrite Hv. unfold lastv. rewrite last_transmits_lastv. reflexivity.
Qed.

Definition C19_conf_spec (ds : list delivery) (obs : list pev) : Prop :=
  obs = expected_events ds /\
  forall e, In e obs -> exists latest, last_num ds = Some latest /\ pe_conf e = (Z.of_N latest - Z.of_N (pe_block e))%Z.

Lemma pev_eqb_eq a b : pev_eqb a b = true <-> a = b.
Proof.
  destruct a, b. unfold pev_eqb. simpl. rewrite !andb_true_iff, !N.eqb_eq, Z.eqb_eq.
  split; [intros [[[[-> ->] ->] ->] ->]; reflexivity | intro H; injection H; auto 10].
Qed.

Lemma C19_conf_check_sound ds obs : C19_conf_check ds obs = true -> C19_conf_spec ds obs.
Proof.
  unfold C19_conf_check, C19_conf_spec, last_num. rewrite andb_true_iff. intros [H1 H2].
  apply (list_eqb_eq pev_eqb pev_eqb_eq) in H1. split; [exact H1|].
  intros e He. destruct (rev ds) as [|dl r] eqn:Er.
  - subst obs. unfold expected_events in He. rewrite Er in He. contradiction.
  - exists (d_num dl). split; [reflexivity|]. rewrite forallb_forall in H2. specialize (H2 _ He). lia.
Qed.

Lemma rt_meets_spec ds : C19_conf_spec ds (rt_run keyless ds).
Proof. split; [apply rt_run_expected | intros e He; eapply confirmations_latest; exact He]. Qed.

(* blocks delivered in increasing order, transmits recorded in the block that carries them:
   confirmations are never negative *)
Lemma confirmations_nonneg ds :
  StronglySorted N.lt (map d_num ds) ->
  (forall d ts t, In d ds -> d_transmits d = Some ts -> In t ts -> te_block t = d_num d) ->
  forall e, In e (rt_run keyless ds) -> (0 <= pe_conf e)%Z.
Proof.
  intros Hs Hwf e He. destruct (confirmations_latest _ _ _ He) as [latest [Hl Hc]]. rewrite Hc.
  assert (Hb : exists d, In d ds /\ pe_block e = d_num d).
  { rewrite rt_run_expected in He. unfold expected_events in He. destruct (rev ds) as [|dl r]; [contradiction|].
    apply in_concat in He. destruct He as [l [Hl' He]]. apply in_map_iff in Hl'. destruct Hl' as [n [<- _]].
    destruct (last_transmits n ds None) as [ts|] eqn:Et; [|contradiction].
    rewrite last_transmits_lastv in Et. apply lastv_some in Et.
    unfold rt_feed in Et. apply in_flat_map in Et. destruct Et as [d [Hd Hp]].
    destruct (d_transmits d) as [ts'|] eqn:Edt; [|contradiction]. destruct Hp as [Hp|[]]. injection Hp as <- <-.
    apply in_concat in He. destruct He as [l2 [Hl2 He]]. apply in_map_iff in Hl2. destruct Hl2 as [t [<- Ht]].
    unfold events_of in He. apply in_map_iff in He. destruct He as [rr [<- _]]. simpl.
    exists d. split; [exact Hd | eapply Hwf; eassumption]. }
  destruct Hb as [d [Hd ->]]. unfold last_num in Hl.
  assert (d_num d <= latest).
  { destruct (rev ds) as [|dl r] eqn:Er; [discriminate|]. injection Hl as <-.
    assert (Hds : ds = rev r ++ [dl]) by (rewrite <- (rev_involutive ds), Er; reflexivity).
    rewrite Hds in Hs, Hd. rewrite map_app in Hs. apply SS_app_inv in Hs. destruct Hs as [_ [_ Hs]].
    apply in_app_iff in Hd. destruct Hd as [Hd|[<-|[]]]; [|lia].
    assert (d_num d < d_num dl) by (apply Hs; [apply in_map; exact Hd | left; reflexivity]). lia. }
  lia.
Qed.
