(* The observation a node builds from well-formed stores is accepted by every peer's validation
   (property C03, observation clause): composition of the observation hooks (Model/Observation.v, here
   over full result / proposal records) with the validation rules (Model/Validate.v). *)
From Verif Require Import Base.Util Model.Types Model.Outcome Model.Validate Model.Observation
  Proofs.SortProofs Proofs.ObservationProofs Proofs.ValidateProofs Proofs.SurfacedProofs.
From Coq Require Import ZifyBool ZifyN ZifyNat.
Open Scope N_scope.

Section B.
  Variable utg : N -> N.
  Variable wg : N -> trigger -> N.
  Variable shuf : N -> N.

  (* what AddFromStagingHook leaves in the observation: the first k results of the canonical order *)
  Definition build_perf (blocked : list N) (staged : list result) (k : nat) : list result :=
    firstn k (sort_by (fun r => shuf (r_wid r)) (filter (fun r => negb (memN (r_wid r) blocked)) staged)).

  Definition build_props (limit : nat) (blocked : list N) (perm : list nat) (view : list proposal) : list proposal :=
    firstn limit (apply_perm perm (filter (fun p => negb (memN (p_wid p) blocked)) view)).

  Definition build_obs (blocked : list N) (staged : list result) (k : nat)
             (logperm condperm : list nat) (logview condview : list proposal) (hist : list blockkey) : observation :=
    mkObs (build_perf blocked staged k)
          (build_props 5 blocked logperm logview ++ build_props 5 blocked condperm condview)
          (firstn 256 hist).

  Lemma NoDup_map_filter' {A B} (g : A -> B) (f : A -> bool) (l : list A) :
    NoDup (map g l) -> NoDup (map g (filter f l)).
  Proof.
    induction l as [|a t IH]; simpl; intro N; [constructor|]. inversion N as [|? ? Nin Nt]; subst.
    destruct (f a); simpl; [|apply IH, Nt]. constructor; [|apply IH, Nt].
    intro H. apply Nin. apply in_map_iff in H as [x [Hx Hi]]. apply filter_In in Hi as [Hi _].
    rewrite <- Hx. apply in_map, Hi.
  Qed.

  Lemma NoDup_map_firstn'' {A B} (f : A -> B) n (l : list A) : NoDup (map f l) -> NoDup (map f (firstn n l)).
  Proof.
    revert n; induction l as [|a t IH]; intros [|n] N; simpl; try constructor.
    - inversion N; subst. intro H. apply in_map_iff in H as [x [Hx Hi]]. apply In_firstn in Hi.
      match goal with H : ~ In _ _ |- _ => apply H end. rewrite <- Hx. apply in_map. exact Hi.
    - inversion N; subst. apply IH. assumption.
  Qed.

  Lemma apply_perm_map {A B} (g : A -> B) perm (l : list A) :
    map g (apply_perm perm l) = apply_perm perm (map g l).
  Proof.
    unfold apply_perm. induction perm as [|i t IH]; simpl; [reflexivity|].
    rewrite map_app, IH, nth_error_map. destruct (nth_error l i); reflexivity.
  Qed.

  Lemma count_type_app ut a b : count_type utg ut (a ++ b) = (count_type utg ut a + count_type utg ut b)%nat.
  Proof. unfold count_type. rewrite filter_app, app_length. reflexivity. Qed.

  Lemma count_type_le ut l : (count_type utg ut l <= length l)%nat.
  Proof. unfold count_type. induction l as [|a t IH]; simpl; [lia|]. destruct (utg (p_upk a) =? ut); simpl; lia. Qed.

  Lemma count_type_zero ut l : (forall p, In p l -> utg (p_upk p) <> ut) -> count_type utg ut l = 0%nat.
  Proof.
    unfold count_type. induction l as [|a t IH]; simpl; intro H; [reflexivity|].
    destruct (utg (p_upk a) =? ut) eqn:E.
    - exfalso. apply (H a); [left; reflexivity | lia].
    - apply IH. intros p Hp. apply H. right. exact Hp.
  Qed.

  Lemma build_props_In limit blocked perm view p :
    In p (build_props limit blocked perm view) -> In p view.
  Proof.
    unfold build_props. intro H. apply In_firstn in H. apply apply_perm_In in H. apply filter_In in H. tauto.
  Qed.

  Lemma build_props_nodup limit blocked perm view :
    NoDup perm -> NoDup (map p_wid view) -> NoDup (map p_wid (build_props limit blocked perm view)).
  Proof.
    intros Np Nv. unfold build_props. apply NoDup_map_firstn''. rewrite apply_perm_map.
    apply apply_perm_nodup; [exact Np|]. apply NoDup_map_filter'. exact Nv.
  Qed.

  (* C03: the built observation meets every rule of validateAutomationObservation *)
  Theorem build_obs_valid blocked staged k logperm condperm logview condview hist :
    (k <= 100)%nat ->
    Forall (result_rules utg wg) staged -> NoDup (map r_wid staged) ->
    Forall (proposal_rules utg wg) logview -> Forall (proposal_rules utg wg) condview ->
    NoDup (map p_wid logview) -> NoDup (map p_wid condview) ->
    (forall p, In p logview -> utg (p_upk p) = ut_log) ->
    (forall p, In p condview -> utg (p_upk p) = ut_cond) ->
    (forall p q, In p logview -> In q condview -> p_wid p <> p_wid q) ->
    NoDup logperm -> NoDup condperm ->
    NoDup (map bk_num hist) ->
    obs_rules utg wg (build_obs blocked staged k logperm condperm logview condview hist).
  Proof.
    intros Hk Fs Ns Fl Fc Nl Nc Tl Tc Dj Pl Pc Nh.
    unfold obs_rules, build_obs, doc_hist_limit, doc_perf_limit, doc_props_limit, doc_cond_limit, doc_log_limit.
    cbn [o_hist o_perf o_props].
    assert (Ll : (length (build_props 5 blocked logperm logview) <= 5)%nat) by (unfold build_props; rewrite firstn_length; lia).
    assert (Lc : (length (build_props 5 blocked condperm condview) <= 5)%nat) by (unfold build_props; rewrite firstn_length; lia).
    split; [rewrite firstn_length; lia|].
    split; [apply NoDup_map_firstn''; exact Nh|].
    split; [unfold build_perf; rewrite firstn_length; lia|].
    split.
    { apply Forall_forall. intros r Hr. unfold build_perf in Hr. apply In_firstn in Hr. apply sort_by_In in Hr.
      apply filter_In in Hr as [Hr _]. rewrite Forall_forall in Fs. auto. }
    split.
    { unfold build_perf. apply NoDup_map_firstn''.
      eapply Permutation_NoDup; [apply Permutation_map, Permutation_sym, sort_by_perm|].
      apply NoDup_map_filter'. exact Ns. }
    split; [rewrite app_length; lia|].
    split.
    { apply Forall_app. split; apply Forall_forall; intros p Hp; apply build_props_In in Hp;
        [rewrite Forall_forall in Fl | rewrite Forall_forall in Fc]; auto. }
    split.
    { rewrite map_app. apply NoDup_app_intro.
      - apply build_props_nodup; assumption.
      - apply build_props_nodup; assumption.
      - intros w Hw Hw'. apply in_map_iff in Hw as [p [Ep Hp]]. apply in_map_iff in Hw' as [q [Eq Hq]].
        apply build_props_In in Hp. apply build_props_In in Hq. apply (Dj p q Hp Hq). congruence. }
    split.
    - rewrite count_type_app.
      rewrite (count_type_zero ut_cond (build_props 5 blocked logperm logview)).
      + pose proof (count_type_le ut_cond (build_props 5 blocked condperm condview)). lia.
      + intros p Hp. apply build_props_In in Hp. rewrite (Tl p Hp). unfold ut_log, ut_cond. lia.
    - rewrite count_type_app.
      rewrite (count_type_zero ut_log (build_props 5 blocked condperm condview)).
      + pose proof (count_type_le ut_log (build_props 5 blocked logperm logview)). lia.
      + intros p Hp. apply build_props_In in Hp. rewrite (Tc p Hp). unfold ut_log, ut_cond. lia.
  Qed.

  Corollary build_obs_accepted blocked staged k logperm condperm logview condview hist :
    (k <= 100)%nat ->
    Forall (result_rules utg wg) staged -> NoDup (map r_wid staged) ->
    Forall (proposal_rules utg wg) logview -> Forall (proposal_rules utg wg) condview ->
    NoDup (map p_wid logview) -> NoDup (map p_wid condview) ->
    (forall p, In p logview -> utg (p_upk p) = ut_log) ->
    (forall p, In p condview -> utg (p_upk p) = ut_cond) ->
    (forall p q, In p logview -> In q condview -> p_wid p <> p_wid q) ->
    NoDup logperm -> NoDup condperm -> NoDup (map bk_num hist) ->
    valid_obs utg wg (build_obs blocked staged k logperm condperm logview condview hist) = true.
  Proof. intros. apply valid_obs_iff. apply build_obs_valid; assumption. Qed.
End B.
