(* pkg/v2, third batch (de-duplication, length-limited encoding): the model's functions are the interpretation of the
   decisions /verif/gen translated from /repo's current sources. *)
From Coq Require Import ZArith NArith Bool List Lia ZifyBool ZifyN ZifyNat.
From Verif Require Import Base.GenIR Gen.GeneratedTr Model.V2.
Import ListNotations.
Open Scope Z_scope.

(* ---------------- filterAndDedupe ---------------- *)
(* one key of the inner loop: skipped when a filter matched or failed; otherwise recorded and appended on its first
   occurrence (2, 3) *)
Definition dd_step (pend : key -> bool) (st : list key * list key) (k : key) : list key * list key :=
  match g_v2_dedupe_key_body (pend k) (memk k (fst st)) with
  | ([1; 2; 3], Fall) => (k :: fst st, snd st ++ [k])
  | _ => st
  end.

Lemma dd_fold : forall pend l m out,
  snd (fold_left (dd_step pend) l (m, out)) = out ++ dd m (filter (fun k => negb (pend k)) l).
Proof.
  intros pend l. induction l as [|k l IH]; intros m out; cbn [fold_left filter].
  - cbn. rewrite app_nil_r. reflexivity.
  - unfold dd_step at 2, g_v2_dedupe_key_body. cbn [fst snd].
    destruct (pend k); cbn [negb].
    + apply IH.
    + cbn [dd]. destruct (memk k m); cbn [negb].
      * apply IH.
      * rewrite IH. rewrite <- app_assoc. reflexivity.
Qed.

Lemma gen_v2_dedupe : forall pend inputs,
  filter_dedupe id_order pend inputs = snd (fold_left (dd_step pend) (concat inputs) ([], [])).
Proof. intros. rewrite dd_fold. reflexivity. Qed.

(* the filter loop: a key is skipped as soon as one filter matches or fails *)
Lemma gen_v2_dedupe_filter : forall m e,
  g_v2_dedupe_filter_body m e = if m || e then ([1], Brk) else ([], Fall).
Proof. intros. reflexivity. Qed.

(* the shuffle runs only on a successful de-duplication, and its output is what is returned *)
Lemma gen_v2_filter_dedupe_shuffle :
  g_v2_filter_dedupe_shuffle false = ([1; 2], RetO 1) /\ g_v2_filter_dedupe_shuffle true = ([1], RetO 0).
Proof. split; reflexivity. Qed.

(* ---------------- limitedLengthEncode ---------------- *)
(* one more identifier: the loop stops at the first prefix whose encoding exceeds the limit, keeping the previous one *)
Lemma gen_v2_limited_body : forall blk limit pre i rest best,
  lim_loop blk limit pre (i :: rest) best =
  match g_v2_limited_encode_body false (Z.of_nat (enc_len blk (pre ++ [i]))) (Z.of_nat limit) with
  | ([], Brk) => best
  | ([1], Fall) => lim_loop blk limit (pre ++ [i]) rest (Some (pre ++ [i]))
  | _ => None
  end.
Proof.
  intros. cbn [lim_loop]. unfold g_v2_limited_encode_body. gen_split; try reflexivity; exfalso; lia.
Qed.

(* whole function: no identifiers - the observation is encoded as it is; otherwise the prefix loop decides *)
Lemma gen_v2_limited : forall blk ids limit,
  limited_encode blk ids limit =
  match g_v2_limited_encode (Z.of_nat (length ids)) with
  | ([], RetO 1) => Some []
  | _ => lim_loop blk limit [] ids None
  end.
Proof.
  intros. unfold limited_encode, g_v2_limited_encode. destruct ids; cbn [length]; gen_split; try reflexivity; exfalso; lia.
Qed.

(* ---------------- polling observer: sampling a head ---------------- *)
(* one check result of the sampling run: staged exactly when the eligibility test succeeded, said eligible, and the
   detail could be read - the filter of the model's [stage] *)
Lemma gen_v2_stage_filter : forall r se,
  (negb (r_eligerr r) && r_elig r && negb (r_deterr r)) =
  match g_v2_process_head_result (r_eligerr r) (r_elig r) (r_deterr r) se with
  | ([1], Fall) => true
  | _ => false
  end.
Proof. intros r se. unfold g_v2_process_head_result. destruct (r_eligerr r), (r_elig r), (r_deterr r), se; reflexivity. Qed.

Lemma gen_v2_stage : forall rs se,
  stage rs = map (fun r => snd (r_key r))
                 (filter (fun r => match g_v2_process_head_result (r_eligerr r) (r_elig r) (r_deterr r) se with
                                   | ([1], Fall) => true
                                   | _ => false
                                   end) rs).
Proof.
  intros rs se. unfold stage. f_equal. induction rs as [|r rs IH]; cbn [filter]; [reflexivity|].
  rewrite <- (gen_v2_stage_filter r se), IH. reflexivity.
Qed.

(* the whole run: the stager is advanced (7) only when the registry answered, some keys were sampled and the runner
   returned - otherwise the previous staging stays (the model's stager_step on None) *)
Lemma gen_v2_process_head : forall a b c,
  In 7 (fst (g_v2_process_head a b c)) <-> (a = false /\ b = false /\ c = false).
Proof.
  intros a b c. unfold g_v2_process_head. destruct a, b, c; cbn; split; intros H;
    try (repeat split; reflexivity); try (destruct H as [H1 [H2 H3]]; discriminate);
    try (repeat (destruct H as [H|H]; try discriminate)); try contradiction; auto 10.
Qed.

(* advancing copies the prepared block and identifiers and clears the preparation; preparing appends *)
Lemma gen_v2_stager :
  g_v2_stager_advance = ([1; 2; 3; 4], Fall) /\
  (forall f, last (fst (g_v2_stager_prepare_id f)) 0 = 2).
Proof. split; [reflexivity|]. intros f. destruct f; reflexivity. Qed.

(* sampling: nothing when there are no keys or the ratio gives none; otherwise the first [size] shuffled keys *)
Lemma gen_v2_shuffle_slice : forall n size,
  g_v2_shuffle_slice n size = if (n =? 0) || (size <=? 0) then ([1], RetO 0) else ([1], RetO 1).
Proof.
  intros. unfold g_v2_shuffle_slice. gen_split; cbn [orb]; try reflexivity; exfalso; lia.
Qed.
