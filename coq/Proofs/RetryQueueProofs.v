(* Lemmas about the retry queue model (Model/RetryQueue.v). *)
From Verif Require Import Base.Util Model.Runner Model.RetryQueue Proofs.RunnerProofs.
From Coq Require Import ZifyBool ZifyNat ZifyN Lia.
Open Scope N_scope.

Lemma rq_find_remove q k k' :
  rq_find (rq_remove q k) k' = if N.eqb k' k then None else rq_find q k'.
Proof.
  induction q as [|[k0 e] t IH]; simpl.
  - destruct (N.eqb k' k); reflexivity.
  - destruct (N.eqb k k0) eqn:E1.
    + apply N.eqb_eq in E1. subst k0. rewrite IH. destruct (N.eqb k' k); reflexivity.
    + simpl. rewrite IH. destruct (N.eqb k' k0) eqn:E2; [|reflexivity].
      apply N.eqb_eq in E2. subst k0. rewrite N.eqb_sym, E1. reflexivity.
Qed.

Lemma rq_find_put q k r k' :
  rq_find (rq_put q k r) k' = if N.eqb k' k then Some r else rq_find q k'.
Proof.
  unfold rq_put. simpl. destruct (N.eqb k' k) eqn:E; [reflexivity|].
  rewrite rq_find_remove, E. reflexivity.
Qed.

Lemma rq_find_keys q k r : rq_find q k = Some r -> In k (rq_keys q).
Proof.
  induction q as [|[k0 e] t IH]; simpl; [discriminate|].
  destruct (N.eqb k k0) eqn:E; intro H.
  - apply N.eqb_eq in E. left. congruence.
  - right. apply IH. exact H.
Qed.

Section QueueFacts.
  Variable divl dexp : Z.

  Notation enqueue1 := (enqueue1 divl).
  Notation ready := (ready dexp).
  Notation expired := (expired dexp).
  Notation dequeue := (dequeue dexp).
  Notation deq_visit := (deq_visit dexp).
  Notation last_enq := (last_enq divl).

  (* ---------------------------------------------------------------------------- *)
  (* Enqueue of one record: what the stored record becomes *)

  Lemma enqueue1_same now q p ivl :
    rq_find (enqueue1 now q (p, ivl)) (pl_wid p) =
    Some match rq_find q (pl_wid p) with
         | Some r => mkRec (if N.ltb (pl_blk (q_pl r)) (pl_blk p) then p else q_pl r)
                           (eff_ivl divl ivl) false (q_created r) now
         | None => mkRec p (eff_ivl divl ivl) false now now
         end.
  Proof.
    unfold RetryQueue.enqueue1. rewrite rq_find_put, N.eqb_refl.
    destruct (rq_find q (pl_wid p)) as [r|]; [reflexivity|].
    simpl. rewrite N.ltb_irrefl. reflexivity.
  Qed.

  Lemma enqueue1_other now q p ivl k : k <> pl_wid p ->
    rq_find (enqueue1 now q (p, ivl)) k = rq_find q k.
  Proof.
    intro H. unfold RetryQueue.enqueue1. rewrite rq_find_put.
    destruct (N.eqb k (pl_wid p)) eqn:E; [apply N.eqb_eq in E; congruence | reflexivity].
  Qed.

  (* ---------------------------------------------------------------------------- *)
  (* Dequeue *)

  Lemma ready_set_pending r now : ready (set_pending r) now = false.
  Proof. unfold RetryQueue.ready, set_pending. simpl. rewrite andb_false_r. reflexivity. Qed.

  Section Deq.
    Variable q0 : rq.
    Variable now n : Z.

    Definition J (st : rq * list payload * bool) : Prop :=
      let '(q, out, stop) := st in
      (forall k, rq_find q k = rq_find q0 k
                 \/ (exists r, rq_find q0 k = Some r /\ ready r now = true
                               /\ rq_find q k = Some (set_pending r) /\ In (q_pl r) out)
                 \/ (exists r, rq_find q0 k = Some r /\ expired r now = true /\ rq_find q k = None))
      /\ (forall p, In p out -> exists k r, rq_find q0 k = Some r /\ ready r now = true /\ p = q_pl r
                                           /\ rq_find q k = Some (set_pending r))
      /\ ((stop = false -> out = [] \/ (Z.of_nat (length out) < n)%Z)
          /\ (Z.of_nat (length out) <= Z.max n 1)%Z).

    Lemma J_visit st k : J st -> J (deq_visit now n st k).
    Proof.
      destruct st as [[q out] stop]. intros [J1 [J2 J3]]. unfold RetryQueue.deq_visit.
      destruct stop; [split; [|split]; assumption|].
      destruct (rq_find q k) as [r|] eqn:F; [|split; [|split]; assumption].
      (* which state was key k in? *)
      assert (Hk : rq_find q0 k = Some r \/ q_pend r = true).
      { destruct (J1 k) as [A|[[r0 [A [B [C D]]]]|[r0 [A [B C]]]]].
        - left. congruence.
        - right. rewrite F in C. inversion C. reflexivity.
        - congruence. }
      destruct (expired r now) eqn:Ex.
      { (* expired: the record is deleted *)
        assert (H0 : rq_find q0 k = Some r).
        { destruct Hk as [A|A]; [exact A|].
          destruct (J1 k) as [B|[[r0 [B [C [D _]]]]|[r0 [B [C D]]]]]; [congruence| |congruence].
          rewrite F in D. inversion D; subst r. unfold RetryQueue.ready in C.
          unfold RetryQueue.expired in *. simpl in Ex. rewrite Ex in C. discriminate. }
        split; [|split; [|exact J3]].
        - intro k'. rewrite rq_find_remove. destruct (N.eqb k' k) eqn:E.
          + apply N.eqb_eq in E. subst k'. right. right. exists r. auto.
          + apply J1.
        - intros p Hp. destruct (J2 p Hp) as [kp [rp [A [B [C D]]]]]. exists kp, rp.
          repeat split; try assumption. rewrite rq_find_remove.
          destruct (N.eqb kp k) eqn:E; [|exact D].
          apply N.eqb_eq in E. subst kp. rewrite H0 in A. inversion A; subst rp.
          unfold RetryQueue.ready in B. rewrite Ex in B. discriminate. }
      destruct (q_pend r) eqn:Pe; [split; [|split]; assumption|].
      destruct Hk as [H0|H0]; [|discriminate].
      destruct (elapsed r now) eqn:El; [|split; [|split]; assumption].
      assert (Hr : ready r now = true) by (unfold RetryQueue.ready; rewrite Ex, Pe, El; reflexivity).
      split; [|split].
      - intro k'. rewrite rq_find_put. destruct (N.eqb k' k) eqn:E.
        + apply N.eqb_eq in E. subst k'. right. left. exists r. repeat split; try assumption.
          apply in_or_app. right. left. reflexivity.
        + destruct (J1 k') as [A|[[r0 [A [B [C D]]]]|A]]; [left; exact A | | right; right; exact A].
          right. left. exists r0. repeat split; try assumption. apply in_or_app. left. exact D.
      - intros p Hp. apply in_app_or in Hp as [Hp|[Hp|[]]].
        + destruct (J2 p Hp) as [kp [rp [A [B [C D]]]]]. exists kp, rp.
          repeat split; try assumption. rewrite rq_find_put.
          destruct (N.eqb kp k) eqn:E; [|exact D].
          apply N.eqb_eq in E. subst kp. rewrite F in D. inversion D; subst r. discriminate.
        + subst p. exists k, r. repeat split; try assumption. rewrite rq_find_put, N.eqb_refl. reflexivity.
      - (* the loop would have stopped before if out already held n >= 1 elements *)
        destruct J3 as [J3 J4]. rewrite app_length. simpl.
        destruct (J3 eq_refl) as [E|E].
        + subst out. simpl. split; [|lia]. intro S. right. lia.
        + split; [|lia]. intro S. right. lia.
    Qed.
  End Deq.

  Lemma fold_visit_J q0 now n ks : forall st, J q0 now n st -> J q0 now n (fold_left (deq_visit now n) ks st).
  Proof.
    induction ks as [|k t IH]; intros st H; simpl; [exact H|]. apply IH. apply J_visit. exact H.
  Qed.

  Lemma J_init q0 now n : J q0 now n (q0, [], false).
  Proof.
    split; [|split].
    - intro k. left. reflexivity.
    - intros p [].
    - simpl. split; [intros _; left; reflexivity | lia].
  Qed.

  Theorem dequeue_spec pi q now n q' out : dequeue pi q now n = (q', out) ->
    (forall p, In p out -> exists k r, rq_find q k = Some r /\ ready r now = true /\ p = q_pl r
                                       /\ rq_find q' k = Some (set_pending r))
    /\ (forall k, rq_find q' k = rq_find q k
                  \/ (exists r, rq_find q k = Some r /\ ready r now = true
                                /\ rq_find q' k = Some (set_pending r) /\ In (q_pl r) out)
                  \/ (exists r, rq_find q k = Some r /\ expired r now = true /\ rq_find q' k = None))
    /\ (Z.of_nat (length out) <= Z.max n 1)%Z.
  Proof.
    unfold RetryQueue.dequeue. intro H.
    pose proof (fold_visit_J q now n (pi ++ rq_keys q) _ (J_init q now n)) as HJ.
    destruct (fold_left (deq_visit now n) (pi ++ rq_keys q) (q, [], false)) as [[q1 out1] stop].
    inversion H; subst. destruct HJ as [J1 [J2 [_ J4]]]. split; [|split]; assumption.
  Qed.

  (* ---------------------------------------------------------------------------- *)
  (* Histories: what every Dequeue in a history guarantees about each payload it hands out *)

  Definition deq_clause (h : list qev) (t : Z) (p : payload) : Prop :=
    let w := pl_wid p in
    exists u iv p0 c p1 t0,
      (* the latest enqueue of this work id happened at u with effective interval iv, and the
         payload is not handed out before u + iv *)
      last_enq h w = Some (u, iv, p0) /\ (iv < t - u)%Z
      (* ... and not a second time without a new enqueue *)
      /\ returned_since h w = false
      (* the payload is one that was enqueued for this work id, on a block at least as high as
         the latest enqueued one *)
      /\ In (t0, p) (enq_of h w) /\ pl_blk p0 <= pl_blk p
      (* its record was created by an enqueue at c and is not handed out after c + expiry *)
      /\ In (c, p1) (enq_of h w) /\ (t - c <= dexp)%Z.

  Fixpoint hist_ok (h : list qev) : Prop :=
    match h with
    | [] => True
    | EDeq t out :: h' => (forall p, In p out -> deq_clause h' t p) /\ hist_ok h'
    | EEnq _ _ :: h' => hist_ok h'
    end.

  Definition INV (h : list qev) (q : rq) : Prop :=
    forall w r, rq_find q w = Some r ->
      pl_wid (q_pl r) = w
      /\ (exists p0, last_enq h w = Some (q_updated r, q_ivl r, p0) /\ pl_blk p0 <= pl_blk (q_pl r))
      /\ (q_pend r = false -> returned_since h w = false)
      /\ (exists t0, In (t0, q_pl r) (enq_of h w))
      /\ (exists p1, In (q_created r, p1) (enq_of h w)).

  Lemma INV_enqueue1 h q t p ivl : INV h q -> INV (EEnq t (p, ivl) :: h) (enqueue1 t q (p, ivl)).
  Proof.
    intros HI w r H. destruct (N.eq_dec w (pl_wid p)) as [E|E].
    - subst w. rewrite enqueue1_same in H. simpl. rewrite N.eqb_refl.
      destruct (rq_find q (pl_wid p)) as [r0|] eqn:F.
      + destruct (HI _ _ F) as [A [[p0 [B1 B2]] [C [[t0 D] [p1 G]]]]].
        inversion H; subst r; clear H. simpl.
        destruct (N.ltb (pl_blk (q_pl r0)) (pl_blk p)) eqn:L.
        * split; [reflexivity|]. split; [exists p; split; [reflexivity | lia]|].
          split; [reflexivity|]. split; [exists t; left; reflexivity|]. exists p1. right. exact G.
        * split; [exact A|]. split; [exists p; split; [reflexivity | lia]|].
          split; [reflexivity|]. split; [exists t0; right; exact D|]. exists p1. right. exact G.
      + inversion H; subst r; clear H. simpl.
        split; [reflexivity|]. split; [exists p; split; [reflexivity | lia]|].
        split; [reflexivity|]. split; [exists t; left; reflexivity|]. exists p. left. reflexivity.
    - rewrite (enqueue1_other _ _ _ _ _ E) in H. simpl.
      destruct (N.eqb (pl_wid p) w) eqn:E2; [apply N.eqb_eq in E2; congruence|].
      apply HI. exact H.
  Qed.

  Lemma INV_dequeue h q pi t n q' out : INV h q -> dequeue pi q t n = (q', out) -> INV (EDeq t out :: h) q'.
  Proof.
    intros HI Hd. destruct (dequeue_spec _ _ _ _ _ _ Hd) as [D1 [D2 _]].
    intros w r' H. simpl.
    destruct (D2 w) as [A|[[r [A [B [C _]]]]|[r [A [B C]]]]].
    - rewrite A in H. destruct (HI _ _ H) as [I1 [I2 [I3 [I4 I5]]]].
      split; [exact I1|]. split; [exact I2|]. split; [|split; assumption].
      intro Pe. rewrite (I3 Pe), orb_false_r.
      apply memN_false_In. intro Hin. apply in_map_iff in Hin as [p [Hp1 Hp2]].
      destruct (D1 p Hp2) as [k [r0 [E1 [E2 [E3 E4]]]]].
      destruct (HI _ _ E1) as [K _]. rewrite <- E3, Hp1 in K. subst k.
      rewrite <- A, E4 in H. inversion H; subst r'. discriminate.
    - rewrite C in H. inversion H; subst r'; clear H.
      destruct (HI _ _ A) as [I1 [I2 [I3 [I4 I5]]]]. simpl.
      split; [exact I1|]. split; [exact I2|]. split; [discriminate | split; assumption].
    - congruence.
  Qed.

  Lemma hist_ok_dequeue h q pi t n q' out :
    INV h q -> hist_ok h -> dequeue pi q t n = (q', out) -> hist_ok (EDeq t out :: h).
  Proof.
    intros HI Hh Hd. destruct (dequeue_spec _ _ _ _ _ _ Hd) as [D1 _].
    split; [|exact Hh]. intros p Hp.
    destruct (D1 p Hp) as [k [r [E1 [E2 [E3 _]]]]].
    destruct (HI _ _ E1) as [I1 [[p0 [I2 I2']] [I3 [[t0 I4] [p1 I5]]]]].
    subst p. unfold deq_clause. rewrite I1.
    unfold RetryQueue.ready, RetryQueue.expired, RetryQueue.elapsed in E2.
    exists (q_updated r), (q_ivl r), p0, (q_created r), p1, t0.
    split; [exact I2|]. split; [lia|]. split; [apply I3; destruct (q_pend r); [simpl in E2; lia | reflexivity]|].
    split; [exact I4|]. split; [exact I2'|]. split; [exact I5 | lia].
  Qed.

  Lemma enqueue_steps t recs : forall q h, INV h q -> hist_ok h ->
    INV (rev (map (EEnq t) recs) ++ h) (enqueue divl t q recs) /\ hist_ok (rev (map (EEnq t) recs) ++ h).
  Proof.
    unfold enqueue. induction recs as [|[p ivl] l IH]; intros q h HI Hh; simpl; [split; assumption|].
    rewrite <- app_assoc. simpl. apply IH; [apply INV_enqueue1; exact HI | exact Hh].
  Qed.

  Theorem q_run_ok ops : INV (snd (q_run divl dexp ops)) (fst (q_run divl dexp ops)) /\ hist_ok (snd (q_run divl dexp ops)).
  Proof.
    unfold q_run.
    assert (G : forall s, INV (snd s) (fst s) /\ hist_ok (snd s) ->
                INV (snd (fold_left (q_step divl dexp) ops s)) (fst (fold_left (q_step divl dexp) ops s))
                /\ hist_ok (snd (fold_left (q_step divl dexp) ops s))).
    { induction ops as [|o t IH]; intros s Hs; simpl; [exact Hs|]. apply IH.
      destruct s as [q h]. destruct Hs as [HI Hh]. simpl in HI, Hh.
      destruct o as [tt recs | tt n pi]; simpl.
      - apply enqueue_steps; assumption.
      - destruct (dequeue pi q tt n) as [q' out] eqn:D. simpl. split.
        + eapply INV_dequeue; eassumption.
        + eapply hist_ok_dequeue; eassumption. }
    apply G. simpl. split; [intros w r H; discriminate | exact I].
  Qed.

  (* ---------------------------------------------------------------------------- *)
  (* Checker K for one observed Dequeue *)

  Definition deq_spec (q : rq) (now n : Z) (obs : list payload) : Prop :=
    NoDup (map pl_wid obs)
    /\ (forall p, In p obs -> exists r, rq_find q (pl_wid p) = Some r /\ p = q_pl r /\ ready r now = true)
    /\ (Z.of_nat (length obs) <= Z.max n 1)%Z
    /\ ((Z.of_nat (length obs) < n)%Z ->
        forall k r, rq_find q k = Some r -> ready r now = true -> In k (map pl_wid obs)).

  Lemma deq_ok_sound q now n obs : deq_ok dexp q now n obs = true -> deq_spec q now n obs.
  Proof.
    unfold deq_ok, deq_spec. intro H.
    apply andb_true_iff in H as [H H4]. apply andb_true_iff in H as [H H3]. apply andb_true_iff in H as [H1 H2].
    split; [apply nodupb_NoDup; exact H1|]. split.
    - intros p Hp. rewrite forallb_forall in H2. specialize (H2 p Hp).
      destruct (rq_find q (pl_wid p)) as [r|]; [|discriminate].
      apply andb_true_iff in H2 as [A B]. apply payload_eqb_eq in A. exists r. auto.
    - split; [lia|]. intros Hlt k r Hk Hr.
      apply orb_true_iff in H4 as [H4|H4]; [lia|].
      rewrite forallb_forall in H4. specialize (H4 k (rq_find_keys _ _ _ Hk)). rewrite Hk, Hr in H4.
      simpl in H4. apply memN_In. exact H4.
  Qed.
End QueueFacts.
