(* Proofs about Model/Reports.v (property C04, and the report-count clause of C03). *)
From Verif Require Import Base.Util Model.Reports.
From Coq Require Import ZifyBool ZifyNat ZifyN.
Open Scope N_scope.

Definition report_okP (c : cfg) (r : list perf) : Prop :=
  r <> [] /\ (Z.of_nat (length r) <= c_batch c)%Z /\ NoDup (map p_upk r)
  /\ (gas_sum c r <= c_limit c \/ length r = 1%nat).

(* The property, stated over an arbitrary candidate list of reports. *)
Definition C04_spec (c : cfg) (ps : list perf) (obs : list (list perf)) : Prop :=
  concat obs = ps /\ Forall (report_okP c) obs.

Definition two62 : N := 4611686018427387904.
Definition two32 : N := 4294967296.

Definition wf_cfg (c : cfg) : Prop :=
  (1 <= c_batch c)%Z /\ c_limit c < two32 /\ c_over c < two32.

Definition wf_perfs (ps : list perf) : Prop := Forall (fun p => p_gas p < two62) ps.

(* ---------------- checker soundness ---------------- *)

Lemma perf_eqb_eq a b : perf_eqb a b = true <-> a = b.
Proof.
  unfold perf_eqb. rewrite !andb_true_iff, !N.eqb_eq. destruct a, b; simpl. split.
  - intros [[-> ->] ->]. reflexivity.
  - intro H. inversion H. auto.
Qed.

Lemma report_ok_sound c r : report_ok c r = true -> report_okP c r.
Proof.
  unfold report_ok, report_okP. rewrite !andb_true_iff, orb_true_iff, negb_true_iff.
  intros [[[H1 H2] H3] H4]. repeat split.
  - intro E. subst. discriminate.
  - lia.
  - apply nodupb_NoDup. exact H3.
  - destruct H4 as [H4|H4]; [left | right]; lia.
Qed.

Lemma C04_check_sound c ps obs : C04_check c ps obs = true -> C04_spec c ps obs.
Proof.
  unfold C04_check, C04_spec. rewrite andb_true_iff. intros [H1 H2]. split.
  - apply (list_eqb_eq perf_eqb perf_eqb_eq). exact H1.
  - eapply forallb_Forall; [|exact H2]. apply report_ok_sound.
Qed.

Lemma report_ok_complete c r : report_okP c r -> report_ok c r = true.
Proof.
  unfold report_ok, report_okP. intros [H1 [H2 [H3 H4]]].
  rewrite !andb_true_iff, orb_true_iff, negb_true_iff. repeat split.
  - destruct r; [congruence | reflexivity].
  - lia.
  - apply nodupb_NoDup. exact H3.
  - destruct H4 as [H4|H4]; [left | right]; lia.
Qed.

Lemma C04_check_complete c ps obs : C04_spec c ps obs -> C04_check c ps obs = true.
Proof.
  unfold C04_check, C04_spec. intros [H1 H2]. rewrite andb_true_iff. split.
  - apply (list_eqb_eq perf_eqb perf_eqb_eq). exact H1.
  - apply forallb_forall. intros r Hr. apply report_ok_complete.
    rewrite Forall_forall in H2. auto.
Qed.

(* ---------------- the fold ---------------- *)

Lemma gas_sum_app c a b : gas_sum c (a ++ b) = gas_sum c a + gas_sum c b.
Proof. unfold gas_sum. induction a as [|x a IH]; simpl; [reflexivity|]. fold (gas_sum c) in *. rewrite IH. lia. Qed.

Lemma w64_small x : x < two64 -> w64 x = x.
Proof. unfold w64. intro H. apply N.mod_small. exact H. Qed.

(* Invariant of the loop for the repaired code (guarded = true). *)
Record Inv (c : cfg) (done : list perf) (s : rstate) : Prop := {
  inv_part  : concat (r_acc s) ++ r_cur s = done;
  inv_acc   : Forall (report_okP c) (r_acc s);
  inv_len   : (Z.of_nat (length (r_cur s)) <= c_batch c)%Z;
  inv_seen  : forall u, In u (r_seen s) <-> In u (map p_upk (r_cur s));
  inv_nodup : NoDup (map p_upk (r_cur s));
  inv_gas   : r_gas s = gas_sum c (r_cur s);
  inv_bound : gas_sum c (r_cur s) <= c_limit c \/ length (r_cur s) = 1%nat;
  inv_small : Forall (fun p => p_gas p < two62) (r_cur s)
}.

Lemma Inv_init c : wf_cfg c -> Inv c [] rinit.
Proof.
  intros [Hb _]. constructor; simpl; try (constructor; fail); try reflexivity; try lia; try tauto.
Qed.

Lemma gas_single_bound c p : wf_cfg c -> p_gas p < two62 -> gas_sum c [p] < two62 + two32.
Proof. intros [_ [_ Ho]] Hp. unfold gas_sum. simpl. unfold two62, two32 in *. lia. Qed.

Lemma cur_gas_bound c s done : wf_cfg c -> Inv c done s -> gas_sum c (r_cur s) < two62 + two32.
Proof.
  intros Hc I. destruct (inv_bound _ _ _ I) as [H|H].
  - destruct Hc as [_ [Hl _]]. unfold two62, two32 in *. lia.
  - destruct (r_cur s) as [|p [|q t]] eqn:E; simpl in H; try discriminate.
    apply gas_single_bound; [exact Hc|].
    pose proof (inv_small _ _ _ I) as Hs. rewrite E in Hs. inversion Hs; assumption.
Qed.

Lemma Inv_step c done s p :
  wf_cfg c -> p_gas p < two62 -> Inv c done s -> Inv c (done ++ [p]) (rstep true c s p).
Proof.
  intros Hc Hp I.
  pose proof (cur_gas_bound c s done Hc I) as Hcur.
  destruct Hc as [Hb [Hl Ho]].
  assert (Hw1 : w64 (p_gas p + c_over c) = p_gas p + c_over c).
  { apply w64_small. unfold two64, two62, two32 in *. lia. }
  unfold rstep. destruct (flush_cond true c s p) eqn:F.
  - (* flush *)
    simpl. rewrite Hw1. rewrite w64_small by (unfold two64, two62, two32 in *; lia).
    assert (Hne : r_cur s <> []).
    { unfold flush_cond in F. rewrite !orb_true_iff in F. destruct F as [[F|F]|F].
      - intro E. rewrite E in F. simpl in F. lia.
      - rewrite andb_true_iff in F. destruct F as [F _]. intro E. rewrite E in F. discriminate.
      - apply memN_In in F. apply (inv_seen _ _ _ I) in F. intro E. rewrite E in F. exact F. }
    constructor; simpl.
    + rewrite concat_app. simpl. rewrite app_nil_r. rewrite (inv_part _ _ _ I). reflexivity.
    + apply Forall_app. split; [exact (inv_acc _ _ _ I)|]. constructor; [|constructor].
      unfold report_okP. repeat split.
      * exact Hne.
      * exact (inv_len _ _ _ I).
      * exact (inv_nodup _ _ _ I).
      * exact (inv_bound _ _ _ I).
    + lia.
    + intro u. tauto.
    + constructor; [intros []|constructor].
    + unfold gas_sum. simpl. lia.
    + right. reflexivity.
    + constructor; [exact Hp|constructor].
  - (* no flush *)
    unfold flush_cond in F. rewrite !orb_false_iff in F. destruct F as [[F1 F2] F3].
    simpl.
    assert (Hnw : r_gas s + p_gas p < two64).
    { rewrite (inv_gas _ _ _ I). unfold two64, two62, two32 in *. lia. }
    rewrite Hw1.
    assert (Hsum : gas_sum c (r_cur s ++ [p]) = gas_sum c (r_cur s) + (p_gas p + c_over c)).
    { rewrite gas_sum_app. unfold gas_sum at 2. simpl. lia. }
    assert (Hnw2 : r_gas s + (p_gas p + c_over c) < two64).
    { rewrite (inv_gas _ _ _ I). unfold two64, two62, two32 in *. lia. }
    constructor; simpl.
    + rewrite app_assoc. rewrite (inv_part _ _ _ I). reflexivity.
    + exact (inv_acc _ _ _ I).
    + rewrite app_length. simpl. lia.
    + intro u. rewrite map_app, in_app_iff. simpl. rewrite (inv_seen _ _ _ I u). tauto.
    + rewrite map_app. simpl.
      apply memN_false_In in F3. rewrite (inv_seen _ _ _ I) in F3.
      apply NoDup_snoc; [exact (inv_nodup _ _ _ I) | exact F3].
    + rewrite w64_small by exact Hnw2. rewrite Hsum, (inv_gas _ _ _ I). reflexivity.
    + destruct (Nat.eqb (length (r_cur s)) 0) eqn:E0.
      * right. rewrite app_length. simpl. lia.
      * left. simpl in F2. rewrite (w64_small (r_gas s + p_gas p)) in F2 by exact Hnw.
        rewrite w64_small in F2 by lia.
        rewrite Hsum. rewrite (inv_gas _ _ _ I) in F2. lia.
    + apply Forall_app. split; [exact (inv_small _ _ _ I)|]. constructor; [exact Hp|constructor].
Qed.

Lemma Inv_fold c ps : wf_cfg c -> wf_perfs ps ->
  forall done s, Inv c done s -> Inv c (done ++ ps) (fold_left (rstep true c) ps s).
Proof.
  intros Hc. induction ps as [|p ps IH]; intros Hps done s I; simpl.
  - rewrite app_nil_r. exact I.
  - inversion Hps; subst.
    replace (done ++ p :: ps) with ((done ++ [p]) ++ ps) by (rewrite <- app_assoc; reflexivity).
    apply IH; [assumption|]. apply Inv_step; assumption.
Qed.

Lemma rfinish_spec c ps s : Inv c ps s -> C04_spec c ps (rfinish s).
Proof.
  intro I. unfold rfinish, C04_spec. destruct (r_cur s) as [|q t] eqn:E.
  - split; [|exact (inv_acc _ _ _ I)].
    pose proof (inv_part _ _ _ I) as H. rewrite E, app_nil_r in H. exact H.
  - split.
    + rewrite concat_app. simpl. rewrite app_nil_r. rewrite <- E. exact (inv_part _ _ _ I).
    + apply Forall_app. split; [exact (inv_acc _ _ _ I)|]. constructor; [|constructor].
      unfold report_okP. rewrite <- E. repeat split.
      * rewrite E. discriminate.
      * exact (inv_len _ _ _ I).
      * exact (inv_nodup _ _ _ I).
      * exact (inv_bound _ _ _ I).
Qed.

(* C04, every clause, for every configuration with batch >= 1 and every list of
   performables with gas below 2^62 (no bound on the list length). *)
Theorem reports_spec c ps : wf_cfg c -> wf_perfs ps -> C04_spec c ps (reports true c ps).
Proof.
  intros Hc Hps. unfold reports. apply rfinish_spec.
  change ps with ([] ++ ps) at 1. apply Inv_fold; [assumption|assumption|apply Inv_init; assumption].
Qed.

(* Partition alone holds for the historic (unguarded) code too, for every configuration. *)
Lemma part_step g c s p :
  concat (r_acc (rstep g c s p)) ++ r_cur (rstep g c s p) = (concat (r_acc s) ++ r_cur s) ++ [p].
Proof.
  unfold rstep. destruct (flush_cond g c s p); simpl.
  - rewrite concat_app. simpl. rewrite app_nil_r. reflexivity.
  - rewrite app_assoc. reflexivity.
Qed.

Lemma part_fold g c ps : forall s,
  concat (r_acc (fold_left (rstep g c) ps s)) ++ r_cur (fold_left (rstep g c) ps s)
  = (concat (r_acc s) ++ r_cur s) ++ ps.
Proof.
  induction ps as [|p ps IH]; intro s; simpl.
  - rewrite app_nil_r. reflexivity.
  - rewrite IH, part_step, <- app_assoc. reflexivity.
Qed.

Theorem reports_partition_any g c ps : concat (reports g c ps) = ps.
Proof.
  unfold reports, rfinish. pose proof (part_fold g c ps rinit) as H. simpl in H.
  destruct (r_cur (fold_left (rstep g c) ps rinit)) eqn:E.
  - rewrite app_nil_r in H. exact H.
  - rewrite concat_app. simpl. rewrite app_nil_r. exact H.
Qed.

(* Number of reports: every report is non-empty, so there are at most as many as performables. *)
Lemma concat_length_ge {A} (l : list (list A)) :
  Forall (fun r => r <> []) l -> (length l <= length (concat l))%nat.
Proof.
  induction l as [|r l IH]; simpl; intro H; [lia|].
  inversion H; subst. rewrite app_length. destruct r; [congruence|]. simpl. specialize (IH H3). lia.
Qed.

Theorem reports_count c ps : wf_cfg c -> wf_perfs ps ->
  (length (reports true c ps) <= length ps)%nat.
Proof.
  intros Hc Hps. destruct (reports_spec c ps Hc Hps) as [H1 H2].
  rewrite <- H1 at 2. apply concat_length_ge.
  eapply Forall_impl; [|exact H2]. intros r [Hr _]. exact Hr.
Qed.

(* The code as it was at the pinned commit (gas clause unguarded) violates the property:
   an over-limit performable opening a batch flushes an empty report. *)
Definition hist_cfg : cfg := mkCfg 2 100 10.
Definition hist_ps : list perf := [mkPerf 1 500 1; mkPerf 2 5 2].

Theorem reports_unguarded_refuted :
  exists c ps, wf_cfg c /\ wf_perfs ps /\ ~ C04_spec c ps (reports false c ps).
Proof.
  exists hist_cfg, hist_ps. split; [|split].
  - unfold wf_cfg, hist_cfg, two32; simpl. lia.
  - unfold wf_perfs, hist_ps, two62. repeat constructor.
  - intros [_ H]. vm_compute in H. inversion H as [|r l Hr Hl]; subst.
    destruct Hr as [Hne _]. apply Hne. reflexivity.
Qed.

(* encoder failing on call k: what is returned is a prefix of the reports *)
Lemma reports_err_prefix g c ps k :
  exists rest, reports g c ps = fst (reports_err g c ps k) ++ rest.
Proof.
  unfold reports_err. destruct k as [k|]; [|exists []; simpl; rewrite app_nil_r; reflexivity].
  destruct (Nat.leb k (length (reports g c ps))); simpl.
  - exists (skipn (k - 1) (reports g c ps)). rewrite firstn_skipn. reflexivity.
  - exists []. rewrite app_nil_r. reflexivity.
Qed.

(* ---------------- configuration defaults ---------------- *)
(* ensureMinimumDefaults makes every decodable configuration well-formed for Reports *)
Theorem defaults_wf r : rw_limit r < two32 -> rw_over r < two32 -> wf_cfg (cfg_of_raw r).
Proof.
  intros Hl Ho. unfold wf_cfg, cfg_of_raw, ensure_defaults, two32 in *. cbn.
  destruct (Z.leb_spec (rw_batch r) 0), (N.eqb_spec (rw_limit r) 0), (N.eqb_spec (rw_over r) 0); lia.
Qed.

Theorem defaults_nonzero r :
  (1 <= c_batch (cfg_of_raw r))%Z /\ 0 < c_limit (cfg_of_raw r) /\ 0 < c_over (cfg_of_raw r).
Proof.
  unfold cfg_of_raw, ensure_defaults. cbn.
  destruct (Z.leb_spec (rw_batch r) 0), (N.eqb_spec (rw_limit r) 0), (N.eqb_spec (rw_over r) 0); lia.
Qed.

(* values the operator set inside the acceptable range are left alone *)
Theorem defaults_keep r :
  (1 <= rw_batch r)%Z -> 0 < rw_limit r -> 0 < rw_over r ->
  cfg_of_raw r = mkCfg (rw_batch r) (rw_limit r) (rw_over r).
Proof.
  intros Hb Hl Ho. unfold cfg_of_raw, ensure_defaults. cbn.
  destruct (Z.leb_spec (rw_batch r) 0), (N.eqb_spec (rw_limit r) 0), (N.eqb_spec (rw_over r) 0);
    try reflexivity; exfalso; lia.
Qed.

Theorem defaults_idempotent r : ensure_defaults (ensure_defaults r) = ensure_defaults r.
Proof.
  destruct r as [lo pl ro mc li ov ba]. unfold ensure_defaults. cbn.
  destruct (Z.leb_spec lo 0), (Z.eqb_spec pl 0), (Z.leb_spec ro 0), (Z.leb_spec mc 0),
           (N.eqb_spec li 0), (N.eqb_spec ov 0), (Z.leb_spec ba 0); cbn;
  repeat match goal with
         | |- context [Z.leb ?a ?b] => destruct (Z.leb_spec a b); try (exfalso; lia)
         | |- context [Z.eqb ?a ?b] => destruct (Z.eqb_spec a b); try (exfalso; lia)
         | |- context [N.eqb ?a ?b] => destruct (N.eqb_spec a b); try (exfalso; lia)
         end; reflexivity.
Qed.

(* the property for every configuration an operator can write (gas figures are uint32 fields) *)
Theorem reports_spec_any_config r ps :
  rw_limit r < two32 -> rw_over r < two32 -> wf_perfs ps ->
  C04_spec (cfg_of_raw r) ps (reports true (cfg_of_raw r) ps).
Proof. intros Hl Ho Hp. apply reports_spec; [apply defaults_wf; assumption | exact Hp]. Qed.
