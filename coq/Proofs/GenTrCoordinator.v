(* The hand-written coordinator model takes exactly the decisions of the code as /verif/gen translated it
   from /repo's current pkg/v3/coordinator/coordinator.go (Gen/GeneratedTr.v, regenerated on every run).
   Each theorem runs the generated decision term on the atoms the model supplies (the record found by
   cache.Get, or Go's zero value when absent) and interprets the white-listed actions by the model's
   own state updates.  Proof scripts are semantic (case split on every comparison, then lia) so that a
   harmless rewrite of the source keeps them, while a changed decision breaks them. *)
From Coq Require Import ZArith NArith Bool List Lia ZifyBool ZifyN.
From Verif Require Import Base.GenIR Gen.GeneratedTr Model.Coordinator.
Import ListNotations.
Open Scope Z_scope.

Definition opt_ok {A} (o : option A) : bool := match o with Some _ => true | None => false end.
(* Go's zero value of [record], which Get returns with ok = false *)
Definition e_zero : entry := mkE 0 false 0 0.
Definition getv (o : option entry) : entry := match o with Some v => v | None => e_zero end.

(* ---------------- Accept ---------------- *)
(* action 1 = cache.Set(work id, {check block := reported block, pending := true}, default expiry) *)
Definition run_accept (c : ccfg) (t : Z) (w b : N) (s : state) (d : list Z * leaf) : option (state * bool) :=
  match d with
  | ([], RetB r) => Some (s, r)
  | ([1], RetB r) => Some (put c t w (mkE b true 0 0) s, r)
  | _ => None
  end.

Lemma gen_coord_Accept : forall c t w b s,
  let r := cget t w (s_cache s) in
  run_accept c t w b s (g_coord_Accept (opt_ok r) (Z.of_N (e_check (getv r))) (Z.of_N b)) = Some (accept c t w b s).
Proof.
  intros c t w b s r. unfold accept, g_coord_Accept. fold r.
  destruct r as [v|]; cbn [opt_ok getv e_zero e_check negb];
    gen_split; cbn [run_accept]; try reflexivity; try (exfalso; lia).
Qed.

(* ---------------- ShouldTransmit ---------------- *)
Lemma gen_coord_ShouldTransmit : forall t w b s,
  let r := cget t w (s_cache s) in
  g_coord_ShouldTransmit (opt_ok r) (Z.of_N (e_check (getv r))) (e_pend (getv r)) (Z.of_N b)
  = ([], RetB (should_transmit t w b s)).
Proof.
  intros t w b s r. unfold should_transmit, st_of, g_coord_ShouldTransmit. fold r.
  destruct r as [v|]; cbn [opt_ok getv e_zero e_check e_pend negb];
    gen_split; try reflexivity; try (exfalso; lia).
Qed.

(* ---------------- ShouldProcess ---------------- *)
Lemma gen_coord_ShouldProcess : forall t i s,
  let r := cget t (it_w i) (s_cache s) in
  g_coord_ShouldProcess (opt_ok r) (e_pend (getv r)) (Z.of_N (it_ut i)) (Z.of_N UT_LOG) (Z.of_N UT_COND)
                        (Z.of_N (e_tt (getv r))) (Z.of_N PERFORM) (Z.of_N (it_blk i)) (Z.of_N (e_tb (getv r)))
  = ([], RetB (should_process t i s)).
Proof.
  intros t i s r. unfold should_process, sp_of, g_coord_ShouldProcess, UT_LOG, UT_COND, PERFORM. fold r.
  destruct r as [v|]; cbn [opt_ok getv e_zero e_pend e_tt e_tb]; [destruct (e_pend v)|];
    gen_split; cbn [negb]; try reflexivity; try (exfalso; lia).
Qed.

(* ---------------- FilterProposals (loop body) ---------------- *)
(* action 1 = res = append(res, proposal) *)
Lemma gen_coord_FilterProposals : forall t i s,
  let r := cget t (it_w i) (s_cache s) in
  g_coord_FilterProposals_body (opt_ok r) (e_pend (getv r)) (Z.of_N (it_ut i)) (Z.of_N UT_LOG)
                               (Z.of_N (e_tt (getv r))) (Z.of_N PERFORM)
  = if keep_proposal t i s then ([1], Fall) else ([], Fall).
Proof.
  intros t i s r. unfold keep_proposal, fp_of, g_coord_FilterProposals_body, UT_LOG, PERFORM. fold r.
  destruct r as [v|]; cbn [opt_ok getv e_zero e_pend e_tt]; [destruct (e_pend v)|];
    gen_split; cbn [negb andb]; try reflexivity; try (exfalso; lia).
Qed.

(* ---------------- FilterResults / PreProcess (loop bodies): keep exactly what ShouldProcess admits ---------------- *)
Lemma gen_coord_filter_bodies : forall should : bool,
  g_coord_filter_body should = ((if should then [1] else []), Fall) /\
  g_coord_preprocess_body should = ((if should then [1] else []), Fall).
Proof. intros [|]; split; reflexivity. Qed.

(* ---------------- checkEvents (loop body) ---------------- *)
(* actions: 1 skipped++ (a log counter), 2 visited.Set(id, true, window), 3 r.check := stored check block,
   4 r.check := event's check block, 5 cache.Set(work id, r, default expiry) with r = {not pending, type, transmit block} *)
Definition run_event (c : ccfg) (t : Z) (s : state) (e : event) (v : entry) (d : list Z * leaf) : option state :=
  let s1 := mkS (s_cache s) (cset vid_eqb (c_window c) t (ev_id e) true (s_vis s)) in
  match d with
  | ([], Fall) | ([1], Fall) => Some s
  | ([2; 3; 5], Fall) => Some (put c t (ev_w e) (mkE (e_check v) false (ev_type e) (ev_tb e)) s1)
  | ([2; 4; 5], Fall) => Some (put c t (ev_w e) (mkE (ev_check e) false (ev_type e) (ev_tb e)) s1)
  | ([2], Fall) => Some s1
  | _ => None
  end.

Lemma gen_coord_checkEvents : forall c t s e,
  let rv := cget t (ev_id e) (s_vis s) in
  let rc := cget t (ev_w e) (s_cache s) in
  run_event c t s e (getv rc)
    (g_coord_checkEvents_body (ev_conf e) (c_minconf c) (opt_ok rv) (opt_ok rc)
                              (Z.of_N (ev_check e)) (Z.of_N (e_check (getv rc))))
  = Some (step_event c t s e).
Proof.
  intros c t s e rv rc. unfold step_event, g_coord_checkEvents_body. fold rv rc.
  destruct rv as [x|], rc as [v|]; cbn [opt_ok getv e_zero e_check negb];
    gen_split; cbn [run_event]; try reflexivity; try (exfalso; lia).
Qed.
