(* Lemmas about the proposal queue model (Model/ProposalQueue.v). *)
From Coq Require Import ZifyBool ZifyNat ZifyN.
From Verif Require Import Base.Util Model.Metadata Model.ResultStore Model.ProposalQueue.
From Verif Require Import Proofs.ResultStoreProofs Proofs.MetadataProofs.
Open Scope Z_scope.

(* ------------------------------------------------------------------ checker K is sound *)

Lemma q_justified_sound exp pre t p : q_justified_b exp pre t p = true -> q_justified exp pre t p.
Proof.
  unfold q_justified_b. intro H. apply existsb_exists in H as [y [Hy H]].
  destruct (qo_op y) as [ps|] eqn:Eo; [|discriminate].
  destruct (existsb (prop_eqb p) ps) eqn:Ep; [|discriminate].
  apply existsb_exists in Ep as [p0 [Hp0 He]]. apply prop_eqb_eq in He. subst p0.
  exists y, ps. split; [exact Hy|]. split; [exact Eo|]. split; [exact Hp0 | lia].
Qed.

Lemma q_again_ok_sound exp q1 ti q2 tj w b : q_again_ok_b exp q1 ti q2 tj w b = true -> q_again_ok exp q1 ti q2 tj w b.
Proof.
  unfold q_again_ok_b. intro H. apply existsb_exists in H as [e1 [He1 H]].
  destruct (enq_has w b e1) eqn:E1; [|discriminate].
  destruct (ti - qo_time e1 <=? exp) eqn:T1; [|discriminate].
  apply existsb_exists in H as [[[a k] after] [Hs H]]. apply splits_spec in Hs.
  destruct (is_deq k) eqn:Ek; [|discriminate].
  destruct (qo_time k - qo_time e1 >? exp) eqn:Tk; [|discriminate].
  apply existsb_exists in H as [e2 [He2 H]].
  destruct (enq_has w b e2) eqn:E2; [|discriminate].
  exists e1, a, k, after, e2. repeat split; auto; lia.
Qed.

Lemma q_once_go_spec exp t V : forall rest rq1,
  q_once_go exp t V rq1 rest = true ->
  forall a ti typ' n' V' q2 p' p, rest = a ++ (ti, QDeq typ' n', V') :: q2 -> In p' V' -> In p V ->
    p_wid p = p_wid p' -> p_blk p = p_blk p' ->
    q_again_ok_b exp (rev a ++ rq1) ti q2 t (p_wid p') (p_blk p') = true.
Proof.
  induction rest as [|y rest IH]; intros rq1 H a ti typ' n' V' q2 p' p Hr Hp' Hp Hw Hb.
  - destruct a; discriminate.
  - simpl in H.
    destruct (if is_deq y then _ else true) eqn:Ehead; [|discriminate].
    destruct a as [|z a]; simpl in Hr; inversion Hr; subst.
    + unfold is_deq, qo_op, qo_time in Ehead. simpl in Ehead.
      rewrite forallb_forall in Ehead. specialize (Ehead p' Hp'). rewrite forallb_forall in Ehead. specialize (Ehead p Hp).
      assert (same_wb (p_wid p') (p_blk p') p = true) as E.
      { unfold same_wb. rewrite Hw, Hb, !N.eqb_refl. reflexivity. }
      rewrite E in Ehead. simpl. exact Ehead.
    + specialize (IH (z :: rq1) H a ti typ' n' V' q2 p' p eq_refl Hp' Hp Hw Hb).
      simpl. rewrite <- app_assoc. simpl. exact IH.
Qed.

Lemma C11_queue_check_sound exp ot : C11_queue_check exp ot = true -> C11_queue_spec exp ot.
Proof.
  intros H pre t typ n V post Hot. unfold C11_queue_check in H. rewrite forallb_forall in H.
  specialize (H (pre, (t, QDeq typ n, V), post)).
  assert (Hs : In (pre, (t, QDeq typ n, V), post) (splits ot)) by (apply splits_spec; exact Hot).
  specialize (H Hs). unfold qo_op, qo_time in H. simpl in H. unfold q_deq_ok_b in H.
  rewrite !andb_true_iff in H. destruct H as [[[[[H1 H2] H3] H4] H5] H6].
  split; [apply nodupb_NoDup; exact H1|].
  split; [intros p Hp; rewrite forallb_forall in H2; apply N.eqb_eq, H2, Hp|].
  split; [apply Nat.leb_le; exact H3|].
  split; [intros p Hp; rewrite forallb_forall in H4; apply q_justified_sound, H4, Hp|].
  split; [|exact H6].
  intros q1 ti typ' n' V' q2 p' p Hpre Hp' Hp Hw Hb.
  unfold q_once_b in H5.
  pose proof (q_once_go_spec exp t V pre [] H5 q1 ti typ' n' V' q2 p' p Hpre Hp' Hp Hw Hb) as Hok.
  apply q_again_ok_sound in Hok.
  destruct Hok as [e1 [a [k [after [e2 [Hin Hrest]]]]]].
  exists e1, a, k, after, e2. split; [|exact Hrest].
  rewrite app_nil_r in Hin. apply in_rev. exact Hin.
Qed.

(* ------------------------------------------------------------------ records map *)

Lemma qget_qdel_same k q : qget k (qdel k q) = None.
Proof.
  unfold qget, qdel. induction q as [|[k' v] q IH]; simpl; [reflexivity|].
  destruct (N.eqb k' k) eqn:E; simpl; [exact IH | rewrite E; exact IH].
Qed.

Lemma qget_qdel_other k k' q : k' <> k -> qget k' (qdel k q) = qget k' q.
Proof.
  intro Hn. unfold qget, qdel. induction q as [|[k0 v] q IH]; simpl; [reflexivity|].
  destruct (N.eqb k0 k) eqn:E; simpl.
  - apply N.eqb_eq in E. subst k0. assert (N.eqb k k' = false) as -> by (apply N.eqb_neq; congruence). exact IH.
  - destruct (N.eqb k0 k'); [reflexivity | exact IH].
Qed.

Lemma qget_app k a b : qget k (a ++ b) = match qget k a with Some r => Some r | None => qget k b end.
Proof.
  unfold qget. induction a as [|[k0 v] a IH]; simpl; [reflexivity|].
  destruct (N.eqb k0 k); [reflexivity | exact IH].
Qed.

Lemma qget_qset_same k v q : qget k (qset k v q) = Some v.
Proof. unfold qset. rewrite qget_app, qget_qdel_same. unfold qget. simpl. rewrite N.eqb_refl. reflexivity. Qed.

Lemma qget_qset_other k k' v q : k' <> k -> qget k' (qset k v q) = qget k' q.
Proof.
  intro Hn. unfold qset. rewrite qget_app, qget_qdel_other by exact Hn.
  destruct (qget k' q); [reflexivity|]. unfold qget. simpl.
  assert (N.eqb k k' = false) as -> by (apply N.eqb_neq; congruence). reflexivity.
Qed.

Lemma qget_In k q r : qget k q = Some r -> In (k, r) q.
Proof.
  unfold qget. destruct (find (fun kv => N.eqb (fst kv) k) q) as [[k0 r0]|] eqn:E; [|discriminate].
  simpl. intro H. inversion H; subst. apply find_some in E as [E1 E2]. simpl in E2. apply N.eqb_eq in E2. subst. exact E1.
Qed.

Lemma qget_notin k q : ~ In k (map fst q) -> qget k q = None.
Proof.
  intro H. unfold qget. destruct (find (fun kv => N.eqb (fst kv) k) q) as [[k0 r0]|] eqn:E; [|reflexivity].
  apply find_some in E as [E1 E2]. simpl in E2. apply N.eqb_eq in E2. subst.
  exfalso. apply H. apply in_map_iff. exists (k, r0). auto.
Qed.

Lemma In_qget k r q : NoDup (map fst q) -> In (k, r) q -> qget k q = Some r.
Proof.
  induction q as [|[k0 r0] q IH]; simpl; intros Hn Hin; [contradiction|]. inversion Hn; subst.
  unfold qget. simpl. destruct Hin as [Hin|Hin].
  - inversion Hin; subst. rewrite N.eqb_refl. reflexivity.
  - destruct (N.eqb k0 k) eqn:E.
    + apply N.eqb_eq in E. subst. exfalso. apply H1. apply in_map_iff. exists (k, r). auto.
    + apply IH; assumption.
Qed.

Lemma qget_filter f k q : NoDup (map fst q) ->
  qget k (filter f q) = match qget k q with Some r => if f (k, r) then Some r else None | None => None end.
Proof.
  induction q as [|[k0 r0] q IH]; intro Hn; [reflexivity|]. inversion Hn; subst. simpl.
  destruct (N.eqb k0 k) eqn:E.
  - apply N.eqb_eq in E. subst k0. unfold qget at 2. simpl. rewrite N.eqb_refl. simpl.
    destruct (f (k, r0)).
    + unfold qget. simpl. rewrite N.eqb_refl. reflexivity.
    + apply qget_notin. intro H. apply H1. apply in_map_iff in H as [kv [Hk Hin]].
      apply filter_In in Hin as [Hin _]. apply in_map_iff. exists kv. auto.
  - assert (Hq : qget k ((k0, r0) :: q) = qget k q) by (unfold qget; simpl; rewrite E; reflexivity).
    rewrite Hq. destruct (f (k0, r0)); [|apply IH; exact H2].
    assert (Hq' : qget k ((k0, r0) :: filter f q) = qget k (filter f q)) by (unfold qget; simpl; rewrite E; reflexivity).
    rewrite Hq'. apply IH. exact H2.
Qed.

Lemma qget_mark ws k q :
  qget k (mark ws q) = option_map (fun r => if memN k ws then set_removed r else r) (qget k q).
Proof.
  unfold qget, mark. induction q as [|[k0 r0] q IH]; [reflexivity|]. simpl.
  destruct (memN k0 ws) eqn:Em; simpl; destruct (N.eqb k0 k) eqn:E; simpl; try exact IH.
  - apply N.eqb_eq in E. subst. rewrite Em. reflexivity.
  - apply N.eqb_eq in E. subst. rewrite Em. reflexivity.
Qed.

Lemma keys_mark ws q : map fst (mark ws q) = map fst q.
Proof.
  unfold mark. rewrite map_map. apply map_ext. intros [k r]. simpl. destruct (memN k ws); reflexivity.
Qed.

Lemma keys_qdel_nodup k q : NoDup (map fst q) -> NoDup (map fst (qdel k q)) /\ ~ In k (map fst (qdel k q)).
Proof.
  intro H. split.
  - unfold qdel. apply NoDup_map_filter. exact H.
  - intro Hin. apply in_map_iff in Hin as [[k0 r0] [Hk Hin]]. unfold qdel in Hin. apply filter_In in Hin as [_ Hf].
    simpl in *. subst. rewrite N.eqb_refl in Hf. discriminate.
Qed.

(* ------------------------------------------------------------------ well-formed queue *)

Definition qwf (lb : Z) (q : queue) : Prop :=
  NoDup (map fst q) /\ forall k r, qget k q = Some r -> p_wid (q_prop r) = k /\ q_at r <= lb.

Lemma qwf_later lb lb' q : lb <= lb' -> qwf lb q -> qwf lb' q.
Proof. intros H [H1 H2]. split; [exact H1|]. intros k r Hg. destruct (H2 k r Hg). split; [assumption | lia]. Qed.

Lemma qwf_enqueue1 t q p : qwf t q -> qwf t (enqueue1 t q p).
Proof.
  intros [H1 H2]. unfold enqueue1.
  assert (Hset : qwf t (qset (p_wid p) (mkQRec p false t) q)).
  { split.
    - unfold qset. rewrite map_app. simpl. destruct (keys_qdel_nodup (p_wid p) q H1). apply NoDup_snoc; assumption.
    - intros k r Hg. destruct (N.eq_dec k (p_wid p)) as [->|Hne].
      + rewrite qget_qset_same in Hg. inversion Hg; subst. simpl. split; [reflexivity | lia].
      + rewrite qget_qset_other in Hg by exact Hne. apply H2. exact Hg. }
  destruct (qget (p_wid p) q) as [r|]; [|exact Hset].
  destruct (p_blk p <=? p_blk (q_prop r))%N; [split; assumption | exact Hset].
Qed.

Lemma qwf_enqueue t q ps : qwf t q -> qwf t (enqueue t q ps).
Proof.
  revert q. induction ps as [|p ps IH]; intros q H; simpl; [exact H|]. apply IH. apply qwf_enqueue1. exact H.
Qed.

Lemma qwf_dequeue exp pi typ n t q : qwf t q -> qwf t (fst (dequeue exp pi typ n t q)).
Proof.
  intros [H1 H2]. unfold dequeue. simpl. split.
  - rewrite keys_mark. apply NoDup_map_filter. exact H1.
  - intros k r Hg. rewrite qget_mark in Hg. rewrite qget_filter in Hg by exact H1.
    destruct (qget k q) as [r0|] eqn:E; [|discriminate]. simpl in Hg.
    destruct (negb (q_expired exp t r0)); [|discriminate]. simpl in Hg. inversion Hg; subst.
    destruct (H2 k r0 E). destruct (memN k _); simpl; auto.
Qed.

Lemma qwf_step exp pi q x lb : lb <= fst x -> qwf lb q -> qwf (fst x) (fst (q_step exp pi q x)).
Proof.
  intros Hle H. apply (qwf_later lb (fst x) q Hle) in H. unfold q_step. destruct (snd x) as [ps|typ n]; simpl.
  - apply qwf_enqueue. exact H.
  - apply qwf_dequeue. exact H.
Qed.

Lemma In_firstn {A} n (l : list A) x : In x (firstn n l) -> In x l.
Proof.
  revert l. induction n as [|n IH]; intros [|a l] H; simpl in *; try contradiction.
  destruct H as [H|H]; [left; exact H | right; apply IH; exact H].
Qed.

(* what Dequeue hands out *)
Lemma dequeue_out exp pi typ n t q r : Permutation (pi q) q -> NoDup (map fst q) ->
  (forall k r0, qget k q = Some r0 -> p_wid (q_prop r0) = k) ->
  In r (snd (dequeue exp pi typ n t q)) ->
  qget (p_wid (q_prop r)) q = Some r /\ q_removed r = false /\ q_expired exp t r = false /\ p_typ (q_prop r) = typ.
Proof.
  intros Hp Hn Hk Hin. unfold dequeue in Hin. simpl in Hin.
  apply In_firstn in Hin. apply in_map_iff in Hin as [[k r0] [Hr Hin]]. simpl in Hr. subst r0.
  apply filter_In in Hin as [Hin Hf]. simpl in Hf. rewrite !andb_true_iff, !negb_true_iff, N.eqb_eq in Hf.
  destruct Hf as [[Hx Hrm] Ht].
  assert (Hq : qget k q = Some r) by (apply In_qget; [exact Hn | eapply Permutation_in; eauto]).
  rewrite (Hk k r Hq). auto.
Qed.

(* ------------------------------------------------------------------ time along a trace *)

Definition last_time {A} (lb : Z) (tr : list (Z * A)) : Z := fold_left (fun _ x => fst x) tr lb.

Lemma tsorted_b_app {A} lb (a b : list (Z * A)) :
  tsorted_b lb (a ++ b) = true -> tsorted_b lb a = true /\ tsorted_b (last_time lb a) b = true.
Proof.
  revert lb. induction a as [|x a IH]; intros lb H; simpl in *; [auto|].
  destruct (lb <=? fst x); [|discriminate]. apply IH. exact H.
Qed.

Lemma tsorted_to_b {A} (tr : list (Z * A)) : tsorted tr ->
  forall lo, (forall x, In x tr -> lo <= fst x) -> tsorted_b lo tr = true.
Proof.
  induction tr as [|y tr IH]; intros H lo Hlo; simpl; [reflexivity|].
  assert (lo <=? fst y = true) as -> by (apply Z.leb_le, Hlo; left; reflexivity).
  apply IH.
  - intros l1 a l2 b l3 Heq. apply (H (y :: l1) a l2 b l3). rewrite Heq. reflexivity.
  - intros x Hin. apply in_split in Hin as [u [v ->]]. apply (H [] y u x v). reflexivity.
Qed.

Lemma qwf_run exp pi tr : forall k q lb, tsorted_b lb tr = true -> qwf lb q ->
  qwf (last_time lb tr) (q_run_from exp pi k q tr).
Proof.
  induction tr as [|x tr IH]; intros k q lb Hs Hq; simpl in *; [exact Hq|].
  destruct (lb <=? fst x) eqn:E; [|discriminate]. apply Z.leb_le in E.
  apply IH; [exact Hs|]. apply (qwf_step exp (pi k) q x lb E Hq).
Qed.

(* ------------------------------------------------------------------ once per block per window *)

Definition Jinv (exp : Z) (w b : N) (c1 lb : Z) (q : queue) : Prop :=
  c1 <= lb /\
  match qget w q with
  | Some r => q_at r <= lb /\
              (q_at r > c1 + exp \/
               (q_at r >= c1 /\ ((b < p_blk (q_prop r))%N \/ (p_blk (q_prop r) = b /\ q_removed r = true))))
  | None => lb > c1 + exp
  end.

Lemma Jinv_later exp w b c1 lb lb' q : lb <= lb' -> Jinv exp w b c1 lb q -> Jinv exp w b c1 lb' q.
Proof.
  intros H [H1 H2]. split; [lia|]. destruct (qget w q) as [r|]; [|lia]. destruct H2. split; [lia | assumption].
Qed.

Lemma Jinv_enqueue1 exp w b c1 t q p : Jinv exp w b c1 t q -> Jinv exp w b c1 t (enqueue1 t q p).
Proof.
  intros [H1 H2]. split; [exact H1|]. unfold enqueue1.
  destruct (N.eq_dec (p_wid p) w) as [Hw|Hw].
  - rewrite Hw. destruct (qget w q) as [r|] eqn:Eg.
    + destruct (p_blk p <=? p_blk (q_prop r))%N eqn:Eb; [rewrite Eg; exact H2|].
      rewrite qget_qset_same. simpl. split; [lia|]. apply N.leb_gt in Eb.
      destruct H2 as [Hat [Hd|[Hc [Hb|[Hb _]]]]]; [left; lia | right; split; [lia | left; lia] | right; split; [lia | left; lia]].
    + rewrite qget_qset_same. simpl. split; [lia|]. left. lia.
  - assert (Hsame : qget w (qset (p_wid p) (mkQRec p false t) q) = qget w q) by (apply qget_qset_other; congruence).
    destruct (qget (p_wid p) q) as [r|].
    + destruct (p_blk p <=? p_blk (q_prop r))%N; [exact H2 | rewrite Hsame; exact H2].
    + rewrite Hsame. exact H2.
Qed.

Lemma Jinv_enqueue exp w b c1 t q ps : Jinv exp w b c1 t q -> Jinv exp w b c1 t (enqueue t q ps).
Proof.
  revert q. induction ps as [|p ps IH]; intros q H; simpl; [exact H|]. apply IH, Jinv_enqueue1, H.
Qed.

Lemma Jinv_dequeue exp w b c1 pi typ n t q : NoDup (map fst q) ->
  Jinv exp w b c1 t q -> Jinv exp w b c1 t (fst (dequeue exp pi typ n t q)).
Proof.
  intros Hn [H1 H2]. split; [exact H1|]. unfold dequeue. simpl.
  rewrite qget_mark, qget_filter by exact Hn.
  destruct (qget w q) as [r|]; [|exact H2]. simpl.
  destruct (q_expired exp t r) eqn:Ex; simpl.
  - unfold q_expired in Ex. destruct H2 as [Hat [Hd|[Hc _]]]; lia.
  - destruct H2 as [Hat Hd]. destruct (memN w _); simpl; [|auto].
    split; [exact Hat|]. destruct Hd as [Hd|[Hc [Hb|[Hb _]]]]; auto.
Qed.

Lemma Jinv_run exp w b c1 pi tr : forall k q lb, tsorted_b lb tr = true -> qwf lb q ->
  Jinv exp w b c1 lb q -> Jinv exp w b c1 (last_time lb tr) (q_run_from exp pi k q tr).
Proof.
  induction tr as [|x tr IH]; intros k q lb Hs Hq HJ; simpl in *; [exact HJ|].
  destruct (lb <=? fst x) eqn:E; [|discriminate]. apply Z.leb_le in E.
  apply IH; [exact Hs | apply (qwf_step exp (pi k) q x lb E Hq) |].
  apply (Jinv_later _ _ _ _ lb (fst x) q E) in HJ. apply (qwf_later lb (fst x) q E) in Hq.
  unfold q_step. destruct (snd x) as [ps|typ n]; simpl.
  - apply Jinv_enqueue. exact HJ.
  - apply Jinv_dequeue; [apply Hq | exact HJ].
Qed.

Lemma qget_dequeue exp pi typ n t q k : NoDup (map fst q) ->
  qget k (fst (dequeue exp pi typ n t q)) =
  match qget k q with
  | Some r => if q_expired exp t r then None
              else Some (if memN k (map (fun r => p_wid (q_prop r)) (snd (dequeue exp pi typ n t q))) then set_removed r else r)
  | None => None
  end.
Proof.
  intro Hn. unfold dequeue. simpl. rewrite qget_mark, qget_filter by exact Hn.
  destruct (qget k q) as [r|]; [|reflexivity]. simpl. destruct (q_expired exp t r); reflexivity.
Qed.

Lemma last_time_ge {A} lb (tr : list (Z * A)) : tsorted_b lb tr = true -> lb <= last_time lb tr.
Proof.
  revert lb. induction tr as [|x tr IH]; intros lb H; simpl in *; [lia|].
  destruct (lb <=? fst x) eqn:E; [|discriminate]. apply Z.leb_le in E. specialize (IH _ H). unfold last_time in *. lia.
Qed.

Lemma once_per_block exp pi pre1 t1 typ1 n1 mid t2 typ2 n2 post :
  (forall k l, Permutation (pi k l) l) ->
  tsorted (pre1 ++ (t1, QDeq typ1 n1) :: mid ++ (t2, QDeq typ2 n2) :: post) ->
  let q1 := q_run_from exp pi 0 [] pre1 in
  let d1 := dequeue exp (pi (length pre1)) typ1 n1 t1 q1 in
  let q2 := q_run_from exp pi (S (length pre1)) (fst d1) mid in
  let d2 := dequeue exp (pi (S (length pre1) + length mid)%nat) typ2 n2 t2 q2 in
  forall r1 r2, In r1 (snd d1) -> In r2 (snd d2) ->
    p_wid (q_prop r1) = p_wid (q_prop r2) -> p_blk (q_prop r1) = p_blk (q_prop r2) ->
    q_at r2 - q_at r1 > exp.
Proof.
  intros Hpi Hs q1 d1 q2 d2 r1 r2 Hr1 Hr2 Hw Hb.
  set (tr := pre1 ++ (t1, QDeq typ1 n1) :: mid ++ (t2, QDeq typ2 n2) :: post) in *.
  set (lo := match tr with [] => 0 | x :: _ => fst x end).
  assert (Hsb : tsorted_b lo tr = true).
  { apply tsorted_to_b; [exact Hs|]. unfold lo. destruct tr as [|y tr']; [intros x []|].
    intros x [<-|Hin]; [lia|]. apply in_split in Hin as [u [v ->]]. apply (Hs [] y u x v). reflexivity. }
  unfold tr in Hsb. apply tsorted_b_app in Hsb as [Hs1 Hs2]. simpl in Hs2.
  destruct (last_time lo pre1 <=? t1) eqn:E1; [|discriminate]. apply Z.leb_le in E1.
  apply tsorted_b_app in Hs2 as [Hs2 Hs3]. simpl in Hs3.
  destruct (last_time t1 mid <=? t2) eqn:E2; [|discriminate]. apply Z.leb_le in E2.
  assert (Hq1 : qwf (last_time lo pre1) q1).
  { apply qwf_run; [exact Hs1|]. split; [constructor|]. intros k r H. unfold qget in H. simpl in H. discriminate. }
  apply (qwf_later _ t1 _ E1) in Hq1.
  destruct (dequeue_out exp (pi (length pre1)) typ1 n1 t1 q1 r1 (Hpi _ _) (proj1 Hq1)
              (fun k r0 H => proj1 (proj2 Hq1 k r0 H)) Hr1) as [Hg1 [Hrm1 [Hx1 _]]].
  set (w := p_wid (q_prop r1)) in *. set (b := p_blk (q_prop r1)) in *.
  assert (HJ1 : Jinv exp w b (q_at r1) t1 (fst d1)).
  { split; [apply (proj2 Hq1 w r1 Hg1)|]. unfold d1. rewrite qget_dequeue by apply Hq1. rewrite Hg1, Hx1.
    fold d1.
    assert (memN w (map (fun r => p_wid (q_prop r)) (snd d1)) = true) as ->.
    { apply memN_In. apply in_map_iff. exists r1. split; [reflexivity | exact Hr1]. }
    simpl. split; [apply (proj2 Hq1 w r1 Hg1)|]. right. split; [lia|]. right. auto. }
  assert (Hq1' : qwf t1 (fst d1)) by (apply qwf_dequeue; exact Hq1).
  pose proof (qwf_run exp pi mid (S (length pre1)) (fst d1) t1 Hs2 Hq1') as Hq2. fold q2 in Hq2.
  pose proof (Jinv_run exp w b (q_at r1) pi mid (S (length pre1)) (fst d1) t1 Hs2 Hq1' HJ1) as HJ2. fold q2 in HJ2.
  destruct (dequeue_out exp (pi (S (length pre1) + length mid)%nat) typ2 n2 t2 q2 r2 (Hpi _ _) (proj1 Hq2)
              (fun k r0 H => proj1 (proj2 Hq2 k r0 H)) Hr2) as [Hg2 [Hrm2 _]].
  rewrite <- Hw in Hg2. fold w in Hg2. destruct HJ2 as [_ HJ2]. rewrite Hg2 in HJ2.
  destruct HJ2 as [_ [Hd|[_ [Hlt|[_ Hrm]]]]]; [lia | | congruence].
  subst b. rewrite Hb in Hlt. lia.
Qed.

(* ------------------------------------------------------------------ supersede *)

Lemma enqueue1_skip t q p r :
  qget (p_wid p) q = Some r -> (p_blk p <= p_blk (q_prop r))%N -> enqueue1 t q p = q.
Proof.
  intros Hg Hb. unfold enqueue1. rewrite Hg.
  assert ((p_blk p <=? p_blk (q_prop r))%N = true) as -> by (apply N.leb_le; exact Hb). reflexivity.
Qed.

Lemma enqueue1_replace t q p :
  (forall r, qget (p_wid p) q = Some r -> (p_blk (q_prop r) < p_blk p)%N) ->
  qget (p_wid p) (enqueue1 t q p) = Some (mkQRec p false t) /\
  forall k, k <> p_wid p -> qget k (enqueue1 t q p) = qget k q.
Proof.
  intro H. unfold enqueue1. destruct (qget (p_wid p) q) as [r|] eqn:Eg.
  - specialize (H r eq_refl). assert ((p_blk p <=? p_blk (q_prop r))%N = false) as -> by (apply N.leb_gt; exact H).
    split; [apply qget_qset_same | intros k Hk; apply qget_qset_other; exact Hk].
  - split; [apply qget_qset_same | intros k Hk; apply qget_qset_other; exact Hk].
Qed.

Lemma filter_length_le {A} (f : A -> bool) l : (length (filter f l) <= length l)%nat.
Proof. induction l as [|a l IH]; simpl; [lia|]. destruct (f a); simpl; lia. Qed.

Lemma dequeue_returns exp pi typ n t q r :
  Permutation (pi q) q -> qget (p_wid (q_prop r)) q = Some r ->
  q_removed r = false -> t - q_at r <= exp -> p_typ (q_prop r) = typ -> (length q <= n)%nat ->
  In r (snd (dequeue exp pi typ n t q)).
Proof.
  intros Hp Hg Hrm Hx Ht Hn. unfold dequeue. simpl.
  set (cands := filter _ (pi q)).
  assert (Hlen : (length (map snd cands) <= n)%nat).
  { rewrite map_length. unfold cands. eapply Nat.le_trans; [apply filter_length_le|].
    rewrite (Permutation_length Hp). exact Hn. }
  rewrite firstn_all2 by exact Hlen. apply in_map_iff. exists (p_wid (q_prop r), r). split; [reflexivity|].
  unfold cands. apply filter_In. split.
  - eapply Permutation_in; [apply Permutation_sym; exact Hp | apply qget_In; exact Hg].
  - simpl. rewrite Hrm, Ht, N.eqb_refl. unfold q_expired.
    assert (t - q_at r >? exp = false) as -> by lia. reflexivity.
Qed.

(* an enqueue on a strictly higher block replaces the record and re-arms it: the next Dequeue of
   its type (with room) within the window hands the NEW proposal out, whatever happened to the old one *)
Lemma supersede exp pi typ n t t' q p :
  NoDup (map fst q) -> Permutation (pi (enqueue1 t q p)) (enqueue1 t q p) ->
  (forall r, qget (p_wid p) q = Some r -> (p_blk (q_prop r) < p_blk p)%N) ->
  t' - t <= exp -> p_typ p = typ -> (S (length q) <= n)%nat ->
  In (mkQRec p false t) (snd (dequeue exp pi typ n t' (enqueue1 t q p))).
Proof.
  intros Hn Hp Hb Ht Hty Hlen. destruct (enqueue1_replace t q p Hb) as [Hg _].
  apply dequeue_returns; auto.
  unfold enqueue1 in *. destruct (qget (p_wid p) q) as [r|].
  - destruct (p_blk p <=? p_blk (q_prop r))%N; [lia|]. unfold qset. rewrite app_length. simpl.
    pose proof (filter_length_le (fun kv : N * qrec => negb (N.eqb (fst kv) (p_wid p))) q). unfold qdel. lia.
  - unfold qset. rewrite app_length. simpl.
    pose proof (filter_length_le (fun kv : N * qrec => negb (N.eqb (fst kv) (p_wid p))) q). unfold qdel. lia.
Qed.

(* ------------------------------------------------------------------ histories that repeat a proposal *)

Definition qge (T : Z) (q : queue) : Prop := forall k r, qget k q = Some r -> T <= q_at r.

Lemma qge_step exp pi T q x : NoDup (map fst q) -> T <= fst x -> qge T q -> qge T (fst (q_step exp pi q x)).
Proof.
  intros Hn HT H. unfold q_step. destruct (snd x) as [ps|typ n].
  - simpl. clear Hn. revert q H. induction ps as [|p ps IH]; intros q H; simpl; [exact H|]. apply IH.
    intros k r Hg. unfold enqueue1 in Hg.
    assert (Hset : qget k (qset (p_wid p) (mkQRec p false (fst x)) q) = Some r -> T <= q_at r).
    { intro Hg'. destruct (N.eq_dec k (p_wid p)) as [->|Hne].
      - rewrite qget_qset_same in Hg'. inversion Hg'; subst. simpl. exact HT.
      - rewrite qget_qset_other in Hg' by exact Hne. apply (H k r Hg'). }
    destruct (qget (p_wid p) q) as [r0|]; [|apply Hset; exact Hg].
    destruct (p_blk p <=? p_blk (q_prop r0))%N; [apply (H k r Hg) | apply Hset; exact Hg].
  - intros k r Hg. rewrite qget_dequeue in Hg by exact Hn.
    destruct (qget k q) as [r0|] eqn:E; [|discriminate]. destruct (q_expired exp (fst x) r0); [discriminate|].
    inversion Hg; subst. specialize (H k r0 E). destruct (memN k _); simpl; exact H.
Qed.

Lemma qge_run exp pi T tr : forall k q lb, tsorted_b lb tr = true -> qwf lb q ->
  (forall x, In x tr -> T <= fst x) -> qge T q -> qge T (q_run_from exp pi k q tr).
Proof.
  induction tr as [|x tr IH]; intros k q lb Hs Hq HT H; simpl in *; [exact H|].
  destruct (lb <=? fst x) eqn:E; [|discriminate]. apply Z.leb_le in E.
  apply (IH _ _ (fst x)); [exact Hs | apply (qwf_step exp (pi k) q x lb E Hq) | intros y Hy; apply HT; right; exact Hy |].
  apply qge_step; [apply Hq | apply HT; left; reflexivity | exact H].
Qed.

(* every operation inside one window [T, T + exp]: whatever the outcomes' histories repeat, a
   (work id, block) is handed out at most once *)
Lemma history_repeat exp pi T pre1 t1 typ1 n1 mid t2 typ2 n2 post :
  (forall k l, Permutation (pi k l) l) ->
  let tr := pre1 ++ (t1, QDeq typ1 n1) :: mid ++ (t2, QDeq typ2 n2) :: post in
  tsorted tr -> (forall x, In x tr -> T <= fst x <= T + exp) ->
  let q1 := q_run_from exp pi 0 [] pre1 in
  let d1 := dequeue exp (pi (length pre1)) typ1 n1 t1 q1 in
  let q2 := q_run_from exp pi (S (length pre1)) (fst d1) mid in
  let d2 := dequeue exp (pi (S (length pre1) + length mid)%nat) typ2 n2 t2 q2 in
  forall r1 r2, In r1 (snd d1) -> In r2 (snd d2) ->
    p_wid (q_prop r1) = p_wid (q_prop r2) -> p_blk (q_prop r1) <> p_blk (q_prop r2).
Proof.
  intros Hpi tr Hs HT q1 d1 q2 d2 r1 r2 Hr1 Hr2 Hw Hb.
  pose proof (once_per_block exp pi pre1 t1 typ1 n1 mid t2 typ2 n2 post Hpi Hs r1 r2 Hr1 Hr2 Hw Hb) as Hgap.
  set (lo := match tr with [] => 0 | x :: _ => fst x end).
  assert (Hsb : tsorted_b lo tr = true).
  { apply tsorted_to_b; [exact Hs|]. unfold lo. destruct tr as [|y tr']; [intros x []|].
    intros x [<-|Hin]; [lia|]. apply in_split in Hin as [u [v ->]]. apply (Hs [] y u x v). reflexivity. }
  unfold tr in Hsb. apply tsorted_b_app in Hsb as [Hs1 Hs2]. simpl in Hs2.
  destruct (last_time lo pre1 <=? t1) eqn:E1; [|discriminate]. apply Z.leb_le in E1.
  apply tsorted_b_app in Hs2 as [Hs2 Hs3]. simpl in Hs3.
  destruct (last_time t1 mid <=? t2) eqn:E2; [|discriminate]. apply Z.leb_le in E2.
  assert (Hempty : qwf lo []) by (split; [constructor|]; intros k r H; unfold qget in H; simpl in H; discriminate).
  pose proof (qwf_run exp pi pre1 0%nat [] lo Hs1 Hempty) as Hq1. fold q1 in Hq1.
  assert (Hge1 : qge T q1).
  { apply (qge_run exp pi T pre1 0%nat [] lo Hs1 Hempty).
    - intros x Hx. apply HT. unfold tr. apply in_or_app. left. exact Hx.
    - intros k r H. unfold qget in H. simpl in H. discriminate. }
  apply (qwf_later _ t1 _ E1) in Hq1.
  destruct (dequeue_out exp (pi (length pre1)) typ1 n1 t1 q1 r1 (Hpi _ _) (proj1 Hq1)
              (fun k r0 H => proj1 (proj2 Hq1 k r0 H)) Hr1) as [Hg1 _].
  pose proof (Hge1 _ _ Hg1) as Hc1.
  assert (Hq1' : qwf t1 (fst d1)) by (apply qwf_dequeue; exact Hq1).
  pose proof (qwf_run exp pi mid (S (length pre1)) (fst d1) t1 Hs2 Hq1') as Hq2. fold q2 in Hq2.
  apply (qwf_later _ t2 _ E2) in Hq2.
  destruct (dequeue_out exp (pi (S (length pre1) + length mid)%nat) typ2 n2 t2 q2 r2 (Hpi _ _) (proj1 Hq2)
              (fun k r0 H => proj1 (proj2 Hq2 k r0 H)) Hr2) as [Hg2 _].
  pose proof (proj2 (proj2 Hq2 _ _ Hg2)) as Hc2.
  assert (Ht2 : T <= t2 <= T + exp).
  { apply (HT (t2, QDeq typ2 n2)). unfold tr. apply in_or_app. right. right. apply in_or_app. right. left. reflexivity. }
  simpl in Ht2. lia.
Qed.
