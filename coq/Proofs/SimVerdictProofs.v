(* Lemmas for C20 (simulator verdict and summary). *)
From Coq Require Import Sorting.Sorted ZifyBool ZifyNat ZifyN.
From Verif Require Import Base.Util Model.SimChain Model.SimVerdict Proofs.SimChainProofs.
Open Scope Z_scope.

Ltac Zify.zify_post_hook ::= Z.div_mod_to_equations.

(* ------------------------------------------------------------------------------ *)
(* 1. index / slice helpers *)

Lemma zget_ok l i : 0 <= i < zlen l -> zget l i = Ok (nth (Z.to_nat i) l 0).
Proof. intro H. unfold zget. destruct ((i <? 0) || (zlen l <=? i)) eqn:E; [lia | reflexivity]. Qed.

Lemma zget_err l i : ~ (0 <= i < zlen l) -> zget l i = Err EIndex.
Proof. intro H. unfold zget. destruct ((i <? 0) || (zlen l <=? i)) eqn:E; [reflexivity | lia]. Qed.

Lemma zslice_ok l lo hi : 0 <= lo <= hi -> hi <= zlen l ->
  zslice l lo hi = Ok (firstn (Z.to_nat (hi - lo)) (skipn (Z.to_nat lo) l)).
Proof.
  intros H1 H2. unfold zslice.
  destruct ((lo <? 0) || (hi <? lo) || (zlen l <? hi)) eqn:E; [lia | reflexivity].
Qed.

Lemma zslice_len (l : list Z) lo hi : 0 <= lo <= hi -> hi <= zlen l ->
  zlen (firstn (Z.to_nat (hi - lo)) (skipn (Z.to_nat lo) l)) = hi - lo.
Proof. intros H1 H2. unfold zlen in *. rewrite firstn_length, skipn_length. lia. Qed.

Lemma is_err_bind {A B} (r : res A) (f : A -> res B) :
  is_err (bind r f) = match r with Ok a => is_err (f a) | Err _ => true end.
Proof. destruct r; reflexivity. Qed.

(* ------------------------------------------------------------------------------ *)
(* 2. findMedianAndSplitData at the pinned commit: exactly which lengths panic *)

Lemma fms_old_small v : zlen v <= 2 -> exists e, fms false v = Err e.
Proof.
  intro H. unfold fms. cbn [andb]. set (n := zlen v) in *.
  assert (Hn : 0 <= n) by (unfold n, zlen; lia).
  destruct (n mod 2 =? 0) eqn:Ep.
  - assert (n = 0 \/ n = 2) as [E|E] by lia.
    + rewrite (zget_err v (n / 2)) by (fold n; lia). eexists. reflexivity.
    + rewrite (zget_ok v (n / 2)) by (fold n; lia). rewrite (zget_err v (n / 2 + 1)) by (fold n; lia).
      eexists. reflexivity.
  - rewrite (zget_err v (n / 2 + 1)) by (fold n; lia). eexists. reflexivity.
Qed.

Lemma fms_old_ok v : 3 <= zlen v ->
  exists m a b, fms false v = Ok (m, a, b) /\
    zlen a = (if zlen v mod 2 =? 0 then zlen v / 2 else zlen v / 2 + 1) /\
    zlen b = (if zlen v mod 2 =? 0 then zlen v / 2 else zlen v - zlen v / 2 - 2).
Proof.
  intro H. unfold fms. cbn [andb]. set (n := zlen v) in *.
  destruct (n mod 2 =? 0) eqn:Ep.
  - rewrite (zget_ok v (n / 2)) by (fold n; lia). rewrite (zget_ok v (n / 2 + 1)) by (fold n; lia).
    rewrite (zslice_ok v 0 (n / 2)) by (fold n; lia). rewrite (zslice_ok v (n / 2) n) by (fold n; lia).
    cbn [bind]. do 3 eexists. split; [reflexivity|].
    split; rewrite zslice_len by (fold n; lia); lia.
  - rewrite (zget_ok v (n / 2 + 1)) by (fold n; lia).
    rewrite (zslice_ok v 0 (n / 2 + 1)) by (fold n; lia). rewrite (zslice_ok v (n / 2 + 1 + 1) n) by (fold n; lia).
    cbn [bind]. do 3 eexists. split; [reflexivity|].
    split; rewrite zslice_len by (fold n; lia); lia.
Qed.

Lemma fms_old_err_iff v : is_err (fms false v) = true <-> zlen v <= 2.
Proof.
  split; intro H.
  - destruct (Z_le_gt_dec (zlen v) 2) as [L|G]; [exact L|].
    destruct (fms_old_ok v ltac:(lia)) as [m [a [b [E _]]]]. rewrite E in H. discriminate.
  - destruct (fms_old_small v H) as [e E]. rewrite E. reflexivity.
Qed.

Lemma insertZ_length x l : length (insertZ x l) = S (length l).
Proof. induction l as [|y t IH]; simpl; [reflexivity|]. destruct (x <=? y); simpl; [reflexivity | rewrite IH; reflexivity]. Qed.

Lemma sortZ_length l : length (sortZ l) = length l.
Proof. induction l as [|x t IH]; simpl; [reflexivity|]. rewrite insertZ_length, IH. reflexivity. Qed.

Lemma summary_old_err_iff data :
  is_err (stats_summary false data) = true <-> (zlen data <= 5 \/ zlen data = 7).
Proof.
  unfold stats_summary. assert (Hl : zlen (sortZ data) = zlen data) by (unfold zlen; rewrite sortZ_length; reflexivity).
  set (s := sortZ data) in *. rewrite is_err_bind.
  destruct (Z_le_gt_dec (zlen s) 2) as [L|G].
  - destruct (fms_old_small s L) as [e ->]. split; [intros _; lia | reflexivity].
  - destruct (fms_old_ok s ltac:(lia)) as [m [a [b [-> [Ha Hb]]]]]. rewrite is_err_bind.
    destruct (Z_le_gt_dec (zlen a) 2) as [La|Ga].
    + destruct (fms_old_small a La) as [e ->]. split; [intros _ | reflexivity].
      destruct (zlen s mod 2 =? 0) eqn:Ep; lia.
    + destruct (fms_old_ok a ltac:(lia)) as [m1 [a1 [b1 [-> _]]]]. rewrite is_err_bind.
      destruct (Z_le_gt_dec (zlen b) 2) as [Lb|Gb].
      * destruct (fms_old_small b Lb) as [e ->]. split; [intros _ | reflexivity].
        destruct (zlen s mod 2 =? 0) eqn:Ep; lia.
      * destruct (fms_old_ok b ltac:(lia)) as [m2 [a2 [b2 [-> _]]]]. cbn [is_err].
        split; [discriminate|]. intro H. exfalso. destruct (zlen s mod 2 =? 0) eqn:Ep; lia.
Qed.

(* ------------------------------------------------------------------------------ *)
(* 3. the repaired function: total, exact split, a true median of sorted data *)

Definition med2 (v : list Z) : Z := conv_median2 v.

Lemma fms_fixed_ok v :
  fms true v = Ok (med2 v, firstn (length v / 2) v, skipn (length v - length v / 2) v).
Proof.
  unfold fms. cbn [andb]. set (n := length v).
  assert (Hz : zlen v = Z.of_nat n) by reflexivity. rewrite Hz.
  destruct (Z.of_nat n =? 0) eqn:E0.
  - assert (n = 0%nat) by lia. destruct v; [reflexivity | simpl in n; lia].
  - assert (Hm : med2 v = nth ((n - 1) / 2) v 0 + nth (n / 2) v 0).
    { unfold med2, conv_median2. destruct v; [simpl in n; lia | reflexivity]. }
    rewrite Hm. destruct (Z.of_nat n mod 2 =? 0) eqn:Ep.
    + rewrite (zget_ok v (Z.of_nat n / 2 - 1)) by (rewrite ?Hz; lia). rewrite (zget_ok v (Z.of_nat n / 2)) by (rewrite ?Hz; lia).
      rewrite (zslice_ok v 0 (Z.of_nat n / 2)) by (rewrite ?Hz; lia).
      rewrite (zslice_ok v (Z.of_nat n / 2) (Z.of_nat n)) by (rewrite ?Hz; lia). cbn [bind].
      f_equal. f_equal; [f_equal|].
      * f_equal; f_equal; lia.
      * simpl skipn. f_equal. lia.
      * replace (Z.to_nat (Z.of_nat n / 2)) with (n - n / 2)%nat by lia.
        apply firstn_all2. rewrite skipn_length. fold n. lia.
    + rewrite (zget_ok v (Z.of_nat n / 2)) by (rewrite ?Hz; lia).
      rewrite (zslice_ok v 0 (Z.of_nat n / 2)) by (rewrite ?Hz; lia).
      rewrite (zslice_ok v (Z.of_nat n / 2 + 1) (Z.of_nat n)) by (rewrite ?Hz; lia). cbn [bind].
      f_equal. f_equal; [f_equal|].
      * replace ((n - 1) / 2)%nat with (n / 2)%nat by lia.
        replace (Z.to_nat (Z.of_nat n / 2)) with (n / 2)%nat by lia. lia.
      * simpl skipn. f_equal. lia.
      * replace (Z.to_nat (Z.of_nat n / 2 + 1)) with (n - n / 2)%nat by lia.
        apply firstn_all2. rewrite skipn_length. fold n. lia.
Qed.

Lemma summary_fixed_total data : exists s, stats_summary true data = Ok s.
Proof.
  unfold stats_summary. rewrite fms_fixed_ok. cbn [bind]. rewrite fms_fixed_ok. cbn [bind].
  rewrite fms_fixed_ok. cbn [bind]. eexists. reflexivity.
Qed.

(* the repaired median is a median of sorted data *)
Lemma sortedZ_SS l : sortedZ l = true -> StronglySorted Z.le l.
Proof.
  induction l as [|x t IH]; intro H; [constructor|].
  destruct t as [|y t']; [constructor; constructor|].
  simpl in H. apply andb_true_iff in H. destruct H as [H1 H2]. specialize (IH H2).
  constructor; [exact IH|]. inversion IH as [|? ? _ Hall]; subst.
  constructor; [lia|]. eapply Forall_impl; [|exact Hall]. simpl. intros. lia.
Qed.

Lemma SS_nth_le l : StronglySorted Z.le l -> forall i j, (i <= j < length l)%nat -> nth i l 0 <= nth j l 0.
Proof.
  induction 1 as [|x t Hs IH Hall]; intros i j Hij; [simpl in Hij; lia|].
  destruct i, j; simpl; try lia.
  - rewrite Forall_forall in Hall. apply Hall. apply nth_In. simpl in Hij. lia.
  - apply IH. simpl in Hij. lia.
Qed.

Lemma nth_firstn_lt {A} (d : A) : forall k l i, (i < k)%nat -> nth i (firstn k l) d = nth i l d.
Proof.
  induction k as [|k IH]; intros l i H; [lia|]. destruct l as [|x l]; [destruct i; reflexivity|].
  destruct i; simpl; [reflexivity | apply IH; lia].
Qed.

Lemma nth_skipn_add {A} (d : A) : forall k l i, nth i (skipn k l) d = nth (k + i) l d.
Proof.
  induction k as [|k IH]; intros l i; [reflexivity|]. destruct l as [|x l]; [destruct i; reflexivity|].
  simpl. apply IH.
Qed.

Lemma filter_all {A} (p : A -> bool) l : (forall x, In x l -> p x = true) -> filter p l = l.
Proof.
  induction l as [|x t IH]; intro H; simpl; [reflexivity|].
  rewrite (H x) by (left; reflexivity). f_equal. apply IH. intros; apply H; right; assumption.
Qed.

Lemma med2_is_median v : sortedZ v = true -> v <> [] -> is_median2 v (med2 v) = true.
Proof.
  intros Hs Hne. apply sortedZ_SS in Hs. set (n := length v).
  assert (Hn : (1 <= n)%nat) by (destruct v; [contradiction | simpl in n; lia]).
  assert (Hm : med2 v = nth ((n - 1) / 2) v 0 + nth (n / 2) v 0) by (unfold med2, conv_median2; destruct v; [contradiction | reflexivity]).
  set (lo := ((n - 1) / 2)%nat) in *. set (hi := (n / 2)%nat) in *.
  assert (Hlohi : (lo <= hi < n)%nat) by (unfold lo, hi; lia).
  pose proof (SS_nth_le v Hs lo hi Hlohi) as Hle.
  unfold is_median2. apply andb_true_iff. split.
  - rewrite <- (firstn_skipn (S lo) v) at 2. rewrite filter_app.
    rewrite (filter_all _ (firstn (S lo) v)).
    + unfold zlen. rewrite app_length, firstn_length. fold n. unfold lo in *. lia.
    + intros x Hx. apply (In_nth _ _ 0) in Hx. destruct Hx as [i [Hi <-]].
      rewrite firstn_length in Hi. rewrite nth_firstn_lt by lia.
      pose proof (SS_nth_le v Hs i lo ltac:(fold n; lia)). lia.
  - rewrite <- (firstn_skipn hi v) at 2. rewrite filter_app.
    rewrite (filter_all _ (skipn hi v)).
    + unfold zlen. rewrite app_length, skipn_length. fold n. unfold hi in *. lia.
    + intros x Hx. apply (In_nth _ _ 0) in Hx. destruct Hx as [i [Hi <-]].
      rewrite skipn_length in Hi. rewrite nth_skipn_add.
      pose proof (SS_nth_le v Hs hi (hi + i) ltac:(fold n; lia)). lia.
Qed.

Lemma Zlist_eqb_refl l : Zlist_eqb l l = true.
Proof. apply (list_eqb_eq Z.eqb); [intros; apply Z.eqb_eq | reflexivity]. Qed.

Lemma Zlist_eqb_eq a b : Zlist_eqb a b = true <-> a = b.
Proof. apply (list_eqb_eq Z.eqb). intros; apply Z.eqb_eq. Qed.

(* the repaired function passes the checker on every input *)
Lemma fms_fixed_passes v : C20_fms_check v (res_opt (fms true v)) = true.
Proof.
  rewrite fms_fixed_ok. cbn [res_opt C20_fms_check]. rewrite !Zlist_eqb_refl. cbn [andb].
  unfold med2. rewrite Z.eqb_refl. apply orb_true_r.
Qed.

Definition C20_fms_spec (data : list Z) (obs : option (Z * list Z * list Z)) : Prop :=
  exists m2 a b, obs = Some (m2, a, b) /\
    a = firstn (length data / 2) data /\ b = skipn (length data - length data / 2) data /\
    (sortedZ data = true -> m2 = conv_median2 data /\ (data <> [] -> is_median2 data m2 = true)).

Lemma C20_fms_check_sound data obs : C20_fms_check data obs = true -> C20_fms_spec data obs.
Proof.
  unfold C20_fms_check, C20_fms_spec. destruct obs as [[[m2 a] b]|]; [|discriminate].
  rewrite !andb_true_iff. intros [[H1 H2] H3]. apply Zlist_eqb_eq in H1, H2.
  exists m2, a, b. repeat split; auto.
  - rewrite H in H3. cbn [negb orb] in H3. lia.
  - intro Hne. rewrite H in H3. cbn [negb orb] in H3. assert (m2 = conv_median2 data) by lia. subst m2.
    apply med2_is_median; assumption.
Qed.

(* ------------------------------------------------------------------------------ *)
(* 4. ReportResults: no nil dereference, no index panic in the repaired code *)

Definition parses (s : str) : Prop := parse_dec s <> None.

Lemma parses_key_of n : parses (key_of n).
Proof.
  unfold parses, parse_dec, key_of. destruct (digits_wf n) as [Hne [Hd _]].
  destruct (digits n) as [|d t] eqn:E; [contradiction|]. rewrite <- E in *. 
  destruct (map (fun d0 : N => (48 + d0)%N) (digits n)) eqn:Em; [rewrite E in Em; discriminate|].
  rewrite <- Em. replace (forallb is_digit (map (fun d0 : N => (48 + d0)%N) (digits n))) with true; [discriminate|].
  symmetry. apply forallb_forall. intros x Hx. apply in_map_iff in Hx. destruct Hx as [y [<- Hy]].
  unfold isdig in Hd. rewrite Forall_forall in Hd. specialize (Hd _ Hy). unfold is_digit. lia.
Qed.

Lemma sub_parsed_ok a b : parses a -> parses b -> exists z, sub_parsed a b = Ok z.
Proof.
  unfold parses, sub_parsed. intros Ha Hb. destruct (parse_dec a); [|contradiction]. destruct (parse_dec b); [|contradiction].
  eexists. reflexivity.
Qed.

Lemma insert_str_in x l y : In y (insert_str x l) -> y = x \/ In y l.
Proof.
  induction l as [|z t IH]; simpl; [intros [H|[]]; auto|].
  destruct (str_ltb z x); simpl; intros [H|H]; auto. destruct (IH H); auto.
Qed.

Lemma sort_strs_in l y : In y (sort_strs l) -> In y l.
Proof.
  induction l as [|x t IH]; simpl; [auto|]. intro H. apply insert_str_in in H. destruct H; auto.
Qed.

Lemma scan_gt_some e l x t : scan_gt e l = Some (x, t) -> In x l /\ forall y, In y t -> In y l.
Proof.
  induction l as [|z r IH]; simpl; [discriminate|].
  destruct (str_ltb e z).
  - intro H. injection H as <- <-. split; [left; reflexivity | intros; right; assumption].
  - intro H. destruct (IH H) as [H1 H2]. split; [right; exact H1 | intros; right; apply H2; assumption].
Qed.

Lemma stats_loop_ok : forall el ps cs,
  Forall parses el -> Forall parses ps -> Forall parses cs -> stats_loop el ps cs = Ok tt.
Proof.
  induction el as [|e rest IH]; intros ps cs He Hp Hc; [reflexivity|].
  inversion He as [|? ? He1 He2]; subst. cbn [stats_loop].
  assert (Gp : forall l, Forall parses l -> exists l',
             match l with
             | [] => Ok l
             | _ => match scan_gt e l with
                    | Some (x, t) => _ <- sub_parsed x e ;; Ok t
                    | None => Ok l
                    end
             end = Ok l' /\ Forall parses l').
  { intros l Hl. destruct l as [|z r]; [exists []; split; [reflexivity | constructor]|].
    destruct (scan_gt e (z :: r)) as [[x t]|] eqn:Es.
    - apply scan_gt_some in Es. destruct Es as [Hx Ht]. rewrite Forall_forall in Hl.
      destruct (sub_parsed_ok x e (Hl _ Hx) He1) as [zz ->]. cbn [bind]. exists t. split; [reflexivity|].
      apply Forall_forall. intros y Hy. apply Hl. apply Ht. exact Hy.
    - exists (z :: r). split; [reflexivity | exact Hl]. }
  destruct (Gp ps Hp) as [ps' [-> Hps']]. cbn [bind].
  destruct (Gp cs Hc) as [cs' [-> Hcs']]. cbn [bind].
  apply IH; assumption.
Qed.

Lemma upkeep_stats_ok el ps cs :
  Forall parses el -> Forall parses ps -> Forall parses cs -> exists r, upkeep_stats el ps cs = Ok r.
Proof.
  intros He Hp Hc. unfold upkeep_stats. rewrite stats_loop_ok.
  - cbn [bind]. eexists. reflexivity.
  - apply Forall_forall. intros y Hy. apply sort_strs_in in Hy. rewrite Forall_forall in He. auto.
  - apply Forall_forall. intros y Hy. apply sort_strs_in in Hy. rewrite Forall_forall in Hp. auto.
  - apply Forall_forall. intros y Hy. apply sort_strs_in in Hy. rewrite Forall_forall in Hc. auto.
Qed.

Lemma performs_of_parses trs id : Forall parses (performs_of true trs id).
Proof.
  apply Forall_forall. intros s Hs. unfold performs_of in Hs. apply in_flat_map in Hs.
  destruct Hs as [t [_ Hs]]. destruct (st_block t) as [n|]; [|contradiction].
  apply in_map_iff in Hs. destruct Hs as [_ [<- _]]. apply parses_key_of.
Qed.

Lemma map_key_of_parses l : Forall parses (map key_of l).
Proof. apply Forall_forall. intros s Hs. apply in_map_iff in Hs. destruct Hs as [n [<- _]]. apply parses_key_of. Qed.

Lemma res_map_ok {A B} (f : A -> res B) l : (forall x, In x l -> exists y, f x = Ok y) -> exists r, res_map f l = Ok r /\ length r = length l.
Proof.
  induction l as [|x t IH]; intro H; [exists []; split; reflexivity|].
  destruct (H x (or_introl eq_refl)) as [y Hy]. destruct IH as [r [Hr Hl]]; [intros; apply H; right; assumption|].
  cbn [res_map]. rewrite Hy. cbn [bind]. rewrite Hr. cbn [bind]. exists (y :: r). split; [reflexivity | simpl; lia].
Qed.

Lemma report_results_total ups trs checks : exists r, report_results true true ups trs checks = Ok r.
Proof.
  unfold report_results.
  match goal with |- context [res_map ?f ?l] => destruct (res_map_ok f l) as [per [-> _]] end.
  { intros id _. apply upkeep_stats_ok; [apply map_key_of_parses | apply performs_of_parses | apply map_key_of_parses]. }
  cbn [bind]. destruct (summary_fixed_total (map (fun id => zlen match assocN id checks with Some c => c | None => [] end)
                                                 (first_ids (map su_id ups) []))) as [s ->].
  cbn [bind]. eexists. reflexivity.
Qed.

Lemma zlen_map {A B} (f : A -> B) l : zlen (map f l) = zlen l.
Proof. unfold zlen. rewrite map_length. reflexivity. Qed.

(* with the repaired builder, the pinned commit's median code made ReportResults panic exactly
   for these numbers of distinct upkeep ids *)
Lemma report_results_old_median_iff ups trs checks :
  let n := zlen (first_ids (map su_id ups) []) in
  is_err (report_results true false ups trs checks) = true <-> (n <= 5 \/ n = 7).
Proof.
  intro n. unfold report_results.
  match goal with |- context [res_map ?f ?l] => destruct (res_map_ok f l) as [per [-> _]] end.
  { intros id _. apply upkeep_stats_ok; [apply map_key_of_parses | apply performs_of_parses | apply map_key_of_parses]. }
  cbn [bind]. rewrite is_err_bind.
  match goal with |- context [stats_summary false ?d] =>
    pose proof (summary_old_err_iff d) as Hs; destruct (stats_summary false d) as [s|e] eqn:Es end.
  - cbn [is_err bind] in *. rewrite !zlen_map in Hs. exact Hs.
  - cbn [is_err] in *. rewrite !zlen_map in Hs. exact Hs.
Qed.

Lemma report_results_old_nil_refuted :
  exists ups trs checks, report_results false true ups trs checks = Err ENil.
Proof. exists [mkSU 1 [5%N]], [mkST None [1%N]], []. vm_compute. reflexivity. Qed.

Lemma summary_old_refuted : exists data, stats_summary false data = Err EIndex.
Proof. exists [3; 7; 10; 12]. vm_compute. reflexivity. Qed.

(* ------------------------------------------------------------------------------ *)
(* 5. expected performs *)

Lemma count_fold {A} (t : A -> bool) l : forall c,
  fold_left (fun c x => if t x then c + 1 else c) l c = c + zlen (filter t l).
Proof.
  induction l as [|x r IH]; intro c; simpl; [unfold zlen; simpl; lia|].
  rewrite IH. destruct (t x); unfold zlen; simpl length; lia.
Qed.

Lemma expected_performs_spec ups logs : expected_performs ups logs = expected_spec ups logs.
Proof.
  unfold expected_performs, expected_spec.
  assert (G : forall l acc,
    fold_left (fun count u =>
      if negb (gu_expected u) then count
      else if N.eqb (gu_type u) 0 then count + zlen (gu_elig u)
      else if N.eqb (gu_type u) 1 then fold_left (fun c l0 => if log_triggers l0 u then c + 1 else c) logs count
      else count) l acc
    = acc + sumZ (map (fun u => if negb (gu_expected u) then 0
                      else if N.eqb (gu_type u) 0 then zlen (gu_elig u)
                      else if N.eqb (gu_type u) 1 then zlen (filter (fun l0 => log_triggers l0 u) logs)
                      else 0) l)).
  { induction l as [|u r IH]; intro acc; simpl; [lia|]. rewrite IH.
    destruct (negb (gu_expected u)); [lia|]. destruct (N.eqb (gu_type u) 0); [lia|].
    destruct (N.eqb (gu_type u) 1); [|lia]. rewrite count_fold. lia. }
  rewrite G. lia.
Qed.

Lemma sumZ_nonneg l : Forall (fun x => 0 <= x) l -> 0 <= sumZ l.
Proof. induction 1; simpl; lia. Qed.

(* nothing is expected exactly when no expected upkeep has an eligibility point / a triggering log *)
Lemma expected_zero_iff ups logs :
  expected_performs ups logs = 0 <->
  forall u, In u ups -> gu_expected u = true ->
    (gu_type u = 0%N -> gu_elig u = []) /\
    (gu_type u = 1%N -> forall l, In l logs -> log_triggers l u = false).
Proof.
  rewrite expected_performs_spec. unfold expected_spec.
  set (g := fun u0 => if negb (gu_expected u0) then 0
                      else if N.eqb (gu_type u0) 0 then zlen (gu_elig u0)
                      else if N.eqb (gu_type u0) 1 then zlen (filter (fun l0 => log_triggers l0 u0) logs)
                      else 0).
  induction ups as [|u r IH]; [split; [intros _ ? [] | reflexivity]|].
  cbn [map]. change (sumZ (g u :: map g r)) with (g u + sumZ (map g r)).
  assert (Hg : forall x, 0 <= g x).
  { intro x. unfold g, zlen. destruct (negb (gu_expected x)); [lia|]. destruct (N.eqb (gu_type x) 0); [lia|].
    destruct (N.eqb (gu_type x) 1); lia. }
  assert (Hs : 0 <= sumZ (map g r)) by (apply sumZ_nonneg, Forall_forall; intros x Hx; apply in_map_iff in Hx; destruct Hx as [y [<- _]]; apply Hg).
  specialize (Hg u).
  assert (Hu : g u = 0 <-> (gu_expected u = true -> (gu_type u = 0%N -> gu_elig u = []) /\
                            (gu_type u = 1%N -> forall l, In l logs -> log_triggers l u = false))).
  { unfold g. destruct (gu_expected u); cbn [negb]; [|split; [discriminate | reflexivity]].
    destruct (N.eqb (gu_type u) 0) eqn:E0.
    - apply N.eqb_eq in E0. split.
      + intros H _. split; [intros _; destruct (gu_elig u); [reflexivity | unfold zlen in H; simpl in H; lia] | intro; congruence].
      + intro H. destruct (H eq_refl) as [H1 _]. rewrite (H1 E0). reflexivity.
    - apply N.eqb_neq in E0. destruct (N.eqb (gu_type u) 1) eqn:E1.
      + apply N.eqb_eq in E1. split.
        * intros H _. split; [intro; congruence|]. intros _ l Hl.
          destruct (log_triggers l u) eqn:Et; [|reflexivity]. exfalso.
          assert (In l (filter (fun l0 => log_triggers l0 u) logs)) by (apply filter_In; auto).
          destruct (filter (fun l0 => log_triggers l0 u) logs); [contradiction | unfold zlen in H; simpl in H; lia].
        * intro H. destruct (H eq_refl) as [_ H2]. rewrite (filter_ext_in _ (fun _ => false)); [|intros; apply (H2 E1); assumption].
          clear. induction logs; [reflexivity | simpl; assumption].
      + apply N.eqb_neq in E1. split; [intros _ _; split; intro; congruence | reflexivity]. }
  split.
  - intros H x [<-|Hx] He; [apply Hu; [lia | exact He] | apply IH; [lia | exact Hx | exact He]].
  - intro H. assert (g u = 0) by (apply Hu; intro; apply H; [left; reflexivity | assumption]).
    assert (sumZ (map g r) = 0) by (apply IH; intros; apply H; [right|]; assumption). lia.
Qed.

Lemma C20_expected_check_sound ups logs neg total :
  C20_expected_check ups logs neg total = true ->
  total = expected_spec ups logs /\ (neg = true <-> expected_spec ups logs = 0).
Proof.
  unfold C20_expected_check. rewrite andb_true_iff. intros [H1 H2]. split; [lia|].
  apply eqb_prop in H2. rewrite H2. lia.
Qed.

(* ------------------------------------------------------------------------------ *)
(* 6. the tracker state machine and the verdict *)

Lemma trk_done_stays msgs : forall t, k_done t = true -> fold_left trk_step msgs t = t.
Proof.
  induction msgs as [|m r IH]; intros t H; [reflexivity|]. simpl.
  unfold trk_step at 2. rewrite H. apply IH. exact H.
Qed.

Definition succ_of (t : trk) : bool := k_done t && negb (k_failed t).

Lemma trk_pos_run total : 0 < total -> forall incs v,
  Forall (fun k => 0 <= k) incs -> v < total ->
  succ_of (fold_left trk_step (run_msgs incs) (mkTrk total v false false)) = (total <=? v + sumZ incs).
Proof.
  intros Ht. induction incs as [|k r IH]; intros v Hk Hv.
  - unfold run_msgs. cbn [map app fold_left]. unfold trk_step. cbn [k_done k_total k_value].
    replace (total =? 0) with false by lia. unfold succ_of. cbn [k_done k_failed andb].
    replace (v =? total) with false by lia. cbn. lia.
  - inversion Hk as [|? ? Hk1 Hk2]; subst. change (sumZ (k :: r)) with (k + sumZ r). unfold run_msgs. cbn [map app fold_left].
    unfold trk_step at 2. cbn [k_done k_total k_value]. replace (total =? 0) with false by lia.
    pose proof (sumZ_nonneg r Hk2) as Hs. replace (0 <? total) with true by lia. cbn [andb].
    destruct (total <=? v + k) eqn:E.
    + rewrite trk_done_stays by reflexivity. unfold succ_of. cbn [k_done k_failed andb negb]. lia.
    + fold (run_msgs r). rewrite IH by (assumption || lia). lia.
Qed.

Lemma trk_success_pos total incs : 0 < total -> Forall (fun k => 0 <= k) incs ->
  trk_success total (run_msgs incs) = (total <=? sumZ incs).
Proof.
  intros Ht Hk. unfold trk_success, trk_run, trk_init. fold (succ_of (fold_left trk_step (run_msgs incs) (mkTrk total 0 false false))).
  rewrite (trk_pos_run total Ht incs 0 Hk Ht). f_equal.
Qed.

Lemma trk_success_zero incs :
  trk_success 0 (run_msgs incs) = match incs with [] => true | _ => false end.
Proof.
  change (trk_success 0 (run_msgs incs)) with (succ_of (fold_left trk_step (run_msgs incs) (mkTrk 0 0 false false))).
  destruct incs as [|k r]; [reflexivity|].
  unfold run_msgs. cbn [map app fold_left]. unfold trk_step at 2. cbn [k_done k_total k_value Z.eqb].
  rewrite trk_done_stays by reflexivity. reflexivity.
Qed.

Definition wf_trackers (ts : list (Z * list Z)) : Prop :=
  forall p, In p ts -> 0 <= fst p /\ Forall (fun k => 0 <= k) (snd p).

Lemma verdict_is_spec ts : wf_trackers ts ->
  verdict (map (fun p => (fst p, run_msgs (snd p))) ts) = verdict_spec ts.
Proof.
  unfold verdict, verdict_spec. induction ts as [|[total incs] r IH]; intro Hwf; [reflexivity|].
  cbn [map forallb fst snd]. rewrite IH by (intros p Hp; apply Hwf; right; exact Hp). f_equal.
  destruct (Hwf (total, incs) (or_introl eq_refl)) as [H0 Hk]. cbn [fst snd] in *.
  destruct (total =? 0) eqn:E.
  - assert (total = 0) by lia. subst. apply trk_success_zero.
  - apply trk_success_pos; [lia | exact Hk].
Qed.

(* ------------------------------------------------------------------------------ *)
(* 7. plan codec *)

Lemma decode_none w : fold_left decode_step w None = None.
Proof. induction w as [|x r IH]; [reflexivity | simpl; exact IH]. Qed.

Lemma decode_confs l : forall a b c w,
  fold_left decode_step (map (fun e => Some (set_type 1 e)) l ++ w) (Some (mkPlan a b c)) =
  fold_left decode_step w (Some (mkPlan (a ++ map (set_type 1) l) b c)).
Proof.
  induction l as [|e r IH]; intros a b c w; simpl; [rewrite app_nil_r; reflexivity|].
  rewrite IH, <- app_assoc. reflexivity.
Qed.

Lemma decode_gens l : forall a b c w,
  fold_left decode_step (map (fun e => Some (set_type 2 e)) l ++ w) (Some (mkPlan a b c)) =
  fold_left decode_step w (Some (mkPlan a (b ++ map (fun e => default_expected (set_type 2 e)) l) c)).
Proof.
  induction l as [|e r IH]; intros a b c w; simpl; [rewrite app_nil_r; reflexivity|].
  rewrite IH, <- app_assoc. reflexivity.
Qed.

Lemma decode_logs l : forall a b c w,
  fold_left decode_step (map (fun e => Some (set_type 3 e)) l ++ w) (Some (mkPlan a b c)) =
  fold_left decode_step w (Some (mkPlan a b (c ++ map (set_type 3) l))).
Proof.
  induction l as [|e r IH]; intros a b c w; simpl; [rewrite app_nil_r; reflexivity|].
  rewrite IH, <- app_assoc. reflexivity.
Qed.

Lemma plan_roundtrip p : decode (encode false p) = Some (normalize p).
Proof.
  unfold decode, encode, normalize. cbn [app].
  rewrite decode_confs, decode_gens. rewrite <- (app_nil_r (map _ (p_logs p))). rewrite decode_logs. reflexivity.
Qed.

Lemma normalize_idem p : normalize (normalize p) = normalize p.
Proof.
  unfold normalize. destruct p as [a b c]. cbn [p_confs p_gens p_logs]. rewrite !map_map. f_equal.
  apply map_ext. intro e. unfold default_expected, set_type. cbn [e_type e_expected e_data].
  destruct (N.eqb (e_expected e) 0) eqn:E; cbn; [reflexivity|]. rewrite E. reflexivity.
Qed.

(* a plan that came out of the decoder is re-encoded and decoded to itself *)
Lemma plan_roundtrip_decoded p : decode (encode false (normalize p)) = Some (normalize p).
Proof. rewrite plan_roundtrip, normalize_idem. reflexivity. Qed.

Lemma plan_presized_fails_iff p :
  decode (encode true p) = None <-> (p_confs p <> [] \/ p_gens p <> []).
Proof.
  destruct p as [a b c]. cbn [p_confs p_gens].
  destruct a as [|e a]; [destruct b as [|e b]|].
  - change (encode true (mkPlan [] [] c)) with (encode false (mkPlan [] [] c)). rewrite plan_roundtrip.
    split; [discriminate | intros [H|H]; contradiction].
  - split; [intros _; right; discriminate|]. intros _. unfold decode, encode.
    cbn [p_confs p_gens length Nat.add repeat app fold_left decode_step]. apply decode_none.
  - split; [intros _; left; discriminate|]. intros _. unfold decode, encode.
    cbn [p_confs p_gens length Nat.add repeat app fold_left decode_step]. apply decode_none.
Qed.

Lemma plan_presized_refuted : exists p, decode (encode true p) = None.
Proof. exists (mkPlan [mkEv 1 0 1] [] []). vm_compute. reflexivity. Qed.

Lemma ev_eqb_eq a b : ev_eqb a b = true <-> a = b.
Proof.
  destruct a, b. unfold ev_eqb. simpl. rewrite !andb_true_iff, !N.eqb_eq.
  split; [intros [[-> ->] ->]; reflexivity | intro H; injection H; auto].
Qed.

Lemma plan_eqb_eq a b : plan_eqb a b = true <-> a = b.
Proof.
  destruct a, b. unfold plan_eqb. simpl. rewrite !andb_true_iff, !(list_eqb_eq ev_eqb ev_eqb_eq).
  split; [intros [[-> ->] ->]; reflexivity | intro H; injection H; auto].
Qed.

Lemma C20_plan_check_sound p dec rest :
  C20_plan_check p dec rest = true -> dec = Some (normalize p) /\ rest = true.
Proof.
  unfold C20_plan_check. destruct dec as [q|]; [|discriminate]. rewrite andb_true_iff, plan_eqb_eq.
  intros [-> ->]. auto.
Qed.

Lemma C20_verdict_check_sound ts obs :
  C20_verdict_check ts obs = true -> obs = verdict_spec ts.
Proof. unfold C20_verdict_check. intro H. apply eqb_prop in H. exact H. Qed.

Lemma insertZ_sorted x l : StronglySorted Z.le l -> StronglySorted Z.le (insertZ x l).
Proof.
  induction 1 as [|y t Hs IH Hall]; simpl; [constructor; constructor|].
  destruct (x <=? y) eqn:E.
  - constructor; [constructor; assumption|]. constructor; [lia|].
    eapply Forall_impl; [|exact Hall]. simpl. intros. lia.
  - constructor; [exact IH|]. clear IH. assert (y <= x) by lia.
    assert (G : forall l', Forall (Z.le y) l' -> Forall (Z.le y) (insertZ x l')).
    { induction l' as [|z r IHr]; simpl; intro Hf; [constructor; [assumption | constructor]|].
      inversion Hf; subst. destruct (x <=? z); constructor; auto. }
    apply G. exact Hall.
Qed.

Lemma sortZ_sorted l : StronglySorted Z.le (sortZ l).
Proof. induction l as [|x t IH]; simpl; [constructor | apply insertZ_sorted; exact IH]. Qed.

Lemma SS_sortedZ l : StronglySorted Z.le l -> sortedZ l = true.
Proof.
  induction 1 as [|x t Hs IH Hall]; [reflexivity|]. destruct t as [|y t']; [reflexivity|].
  cbn [sortedZ]. inversion Hall; subst. apply andb_true_iff. split; [lia | exact IH].
Qed.

Lemma insertZ_perm x l : Permutation (insertZ x l) (x :: l).
Proof.
  induction l as [|y t IH]; simpl; [reflexivity|]. destruct (x <=? y); [reflexivity|].
  rewrite IH. apply perm_swap.
Qed.

Lemma sortZ_perm l : Permutation (sortZ l) l.
Proof. induction l as [|x t IH]; simpl; [reflexivity|]. rewrite insertZ_perm. constructor. exact IH. Qed.

Lemma is_median2_perm l1 l2 m : Permutation l1 l2 -> is_median2 l1 m = is_median2 l2 m.
Proof.
  intro Hp. unfold is_median2, zlen.
  assert (G : forall p : Z -> bool, length (filter p l1) = length (filter p l2)).
  { intro p. induction Hp; simpl; try congruence.
    - destruct (p x); simpl; congruence.
    - destruct (p x), (p y); reflexivity. }
  rewrite (Permutation_length Hp), !G. reflexivity.
Qed.

(* what the summary checker establishes: the printed median is the conventional median of the
   data (hence a median: half of the values on either side), the quartiles are the medians of
   the lower and upper halves, IQR and fences follow *)
Lemma C20_summary_check_sound data obs :
  C20_summary_check data obs = true ->
  exists s, obs = Some s /\
    s_med4 s = 2 * conv_median2 (sortZ data) /\
    s_q1_4 s = 2 * conv_median2 (firstn (length data / 2) (sortZ data)) /\
    s_q3_4 s = 2 * conv_median2 (skipn (length data - length data / 2) (sortZ data)) /\
    s_iqr4 s = s_q3_4 s - s_q1_4 s /\
    (data <> [] -> is_median2 data (s_med4 s / 2) = true).
Proof.
  unfold C20_summary_check. destruct obs as [s|]; [|discriminate]. intro H. exists s. split; [reflexivity|].
  rewrite sortZ_length in H. rewrite !andb_true_iff in H. destruct H as [[[[[H1 H2] H3] H4] H5] H6].
  repeat split; try lia.
  intro Hne. assert (Hm : s_med4 s / 2 = conv_median2 (sortZ data)) by lia. rewrite Hm.
  rewrite <- (is_median2_perm _ _ _ (sortZ_perm data)). apply med2_is_median.
  - apply SS_sortedZ, sortZ_sorted.
  - intro E. apply Hne. apply Permutation_nil. rewrite <- E. apply sortZ_perm.
Qed.

(* the repaired summary passes the checker on every input *)
Lemma summary_fixed_passes data : C20_summary_check data (res_opt (stats_summary true data)) = true.
Proof.
  unfold stats_summary. rewrite fms_fixed_ok. cbn [bind]. rewrite fms_fixed_ok. cbn [bind].
  rewrite fms_fixed_ok. cbn [bind res_opt C20_summary_check s_med4 s_q1_4 s_q3_4 s_iqr4 s_lf4 s_uf4].
  unfold med2. rewrite !andb_true_iff. repeat split; lia.
Qed.

(* ------------------------------------------------------------------------------ *)
(* 8. loader wired to the telemetry *)

Lemma expected_spec_nonneg ups logs : 0 <= expected_spec ups logs.
Proof.
  unfold expected_spec. apply sumZ_nonneg, Forall_forall. intros x Hx. apply in_map_iff in Hx.
  destruct Hx as [u [<- _]]. unfold zlen. destruct (negb (gu_expected u)); [lia|].
  destruct (N.eqb (gu_type u) 0); [lia|]. destruct (N.eqb (gu_type u) 1); lia.
Qed.

Lemma wired_verdict_spec ups logs loads : Forall (fun k => 0 <= k) loads ->
  wired_verdict ups logs loads = verdict_spec [(expected_spec ups logs, loads)].
Proof.
  intro H. unfold wired_verdict. rewrite expected_performs_spec.
  apply (verdict_is_spec [(expected_spec ups logs, loads)]).
  intros p [<-|[]]. cbn [fst snd]. split; [apply expected_spec_nonneg | exact H].
Qed.

Lemma C20_wired_check_sound ups logs loads obs :
  C20_wired_check ups logs loads obs = true -> obs = verdict_spec [(expected_spec ups logs, loads)].
Proof. unfold C20_wired_check. intro H. apply eqb_prop in H. exact H. Qed.
