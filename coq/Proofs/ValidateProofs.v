(* Lemmas about Model/Validate.v: the sequential first-error model accepts exactly the values
   that meet the documented rules; each rule is enforced on its own; checker K decides the rules. *)
From Verif Require Import Base.Util Model.Types Model.Validate Gen.Generated.
From Coq Require Import ZifyBool ZifyNat ZifyN.
Open Scope N_scope.

(* proof obligations against the regenerated constants *)
Lemma gen_hist : ObservationBlockHistoryLimit = doc_hist_limit. Proof. reflexivity. Qed.
Lemma gen_perf : ObservationPerformablesLimit = doc_perf_limit. Proof. reflexivity. Qed.
Lemma gen_cond : ObservationConditionalsProposalsLimit = doc_cond_limit. Proof. reflexivity. Qed.
Lemma gen_log : ObservationLogRecoveryProposalsLimit = doc_log_limit. Proof. reflexivity. Qed.
Lemma gen_props : (ObservationConditionalsProposalsLimit + ObservationLogRecoveryProposalsLimit)%Z = doc_props_limit.
Proof. reflexivity. Qed.
Lemma gen_agreed : OutcomeAgreedPerformablesLimit = doc_agreed_limit. Proof. reflexivity. Qed.
Lemma gen_rounds : OutcomeSurfacedProposalsRoundHistoryLimit = doc_rounds_limit. Proof. reflexivity. Qed.
Lemma gen_round : OutcomeSurfacedProposalsLimit = doc_round_limit. Proof. reflexivity. Qed.

Lemma is_ok_seq a b : is_ok (seq_err a b) = is_ok a && is_ok b.
Proof. destruct a; reflexivity. Qed.

Lemma is_ok_ite (c : bool) (e : verr) : e <> ok -> is_ok (if c then e else ok) = negb c.
Proof. destruct c, e; simpl; congruence. Qed.

Lemma is_ok_ite' (c : bool) (e : verr) : e <> ok -> is_ok (if c then ok else e) = c.
Proof. destruct c, e; simpl; congruence. Qed.

Lemma is_ok_true e : is_ok e = true <-> e = ok.
Proof. destruct e; simpl; split; congruence. Qed.

Section V.
  Variable utg : N -> N.
  Variable wg : N -> trigger -> N.

  Lemma check_ext_iff t ut : is_ok (check_ext t ut) = true <-> ext_rule t ut.
  Proof.
    unfold check_ext, ext_rule, ut_cond, ut_log.
    destruct (N.eqb_spec ut 0) as [E|E]; [|destruct (N.eqb_spec ut 1) as [E1|E1]];
      destruct (t_ext t); simpl; split; try (intros; split; intros; congruence); try congruence.
    - intros [H _]. specialize (H E). discriminate.
    - intros [_ H]. specialize (H E1). congruence.
  Qed.

  Lemma check_price_iff en er p : en <> ok -> er <> ok ->
    (is_ok (check_price en er p) = true <-> price_rule p).
  Proof.
    intros Hn Hr. unfold check_price, price_rule. destruct p as [v|].
    - rewrite is_ok_ite by assumption. split.
      + intro H. exists v. split; [reflexivity|]. lia.
      + intros [v' [E H]]. inversion E; subst. lia.
    - destruct en; try congruence; simpl; split; try discriminate; intros [v [E _]]; discriminate.
  Qed.

  Lemma check_result_iff r : is_ok (check_result utg wg r) = true <-> result_rules utg wg r.
  Proof.
    unfold check_result, result_rules.
    rewrite !is_ok_seq, !andb_true_iff.
    rewrite check_ext_iff, !check_price_iff by discriminate.
    rewrite !is_ok_ite, is_ok_ite' by discriminate.
    rewrite !negb_true_iff, !orb_false_iff, !negb_false_iff, !N.eqb_eq, N.eqb_neq.
    tauto.
  Qed.

  Lemma check_proposal_iff p : is_ok (check_proposal utg wg p) = true <-> proposal_rules utg wg p.
  Proof.
    unfold check_proposal, proposal_rules.
    rewrite is_ok_seq, andb_true_iff, check_ext_iff, is_ok_ite', N.eqb_eq by discriminate. tauto.
  Qed.

  Definition disj (l seen : list N) : Prop := forall x, In x l -> ~ In x seen.

  Lemma disj_cons_iff a l seen :
    ~ In a seen /\ disj l (a :: seen) <-> (~ In a l /\ disj (a :: l) seen).
  Proof.
    unfold disj; simpl; split.
    - intros [H1 H3]. split; [intro Ha; apply (H3 a Ha); left; reflexivity|].
      intros x [E|Hx]; [subst; assumption|].
      intro Hs. apply (H3 x Hx). right; assumption.
    - intros [H2 H3]. split; [apply H3; left; reflexivity|].
      intros x Hx [E|Hs]; [subst; contradiction|]. apply (H3 x); [right; assumption|assumption].
  Qed.

  Lemma check_hist_iff h : forall seen,
    is_ok (check_hist seen h) = true <-> NoDup (map bk_num h) /\ disj (map bk_num h) seen.
  Proof.
    induction h as [|b t IH]; intro seen; simpl.
    - split; [intros _; split; [constructor | intros x []] | reflexivity].
    - destruct (memN (bk_num b) seen) eqn:M.
      + simpl. split; [discriminate|]. intros [_ D]. apply memN_In in M.
        exfalso. apply (D (bk_num b)); [left; reflexivity | assumption].
      + rewrite IH. apply memN_false_In in M. rewrite NoDup_cons_iff.
        pose proof (disj_cons_iff (bk_num b) (map bk_num t) seen). tauto.
  Qed.

  Lemma check_results_iff rs : forall seen,
    is_ok (check_results utg wg seen rs) = true <->
    Forall (result_rules utg wg) rs /\ NoDup (map r_wid rs) /\ disj (map r_wid rs) seen.
  Proof.
    induction rs as [|r t IH]; intro seen; simpl.
    - split; [intros _; repeat split; [constructor | constructor | intros x []] | reflexivity].
    - rewrite is_ok_seq, andb_true_iff, check_result_iff, Forall_cons_iff.
      destruct (memN (r_wid r) seen) eqn:M.
      + simpl. split; [intros [_ H]; discriminate|]. intros [_ [_ D]]. apply memN_In in M.
        exfalso. apply (D (r_wid r)); [left; reflexivity | assumption].
      + rewrite IH. apply memN_false_In in M. rewrite NoDup_cons_iff.
        pose proof (disj_cons_iff (r_wid r) (map r_wid t) seen). tauto.
  Qed.

  Lemma check_proposals_iff ps : forall seen,
    is_ok (check_proposals utg wg seen ps) = true <->
    Forall (proposal_rules utg wg) ps /\ NoDup (map p_wid ps) /\ disj (map p_wid ps) seen.
  Proof.
    induction ps as [|p t IH]; intro seen; simpl.
    - split; [intros _; repeat split; [constructor | constructor | intros x []] | reflexivity].
    - rewrite is_ok_seq, andb_true_iff, check_proposal_iff, Forall_cons_iff.
      destruct (memN (p_wid p) seen) eqn:M.
      + simpl. split; [intros [_ H]; discriminate|]. intros [_ [_ D]]. apply memN_In in M.
        exfalso. apply (D (p_wid p)); [left; reflexivity | assumption].
      + rewrite IH. apply memN_false_In in M. rewrite NoDup_cons_iff.
        pose proof (disj_cons_iff (p_wid p) (map p_wid t) seen). tauto.
  Qed.

  Lemma NoDup_app_iff {A} (l1 l2 : list A) :
    NoDup (l1 ++ l2) <-> NoDup l1 /\ NoDup l2 /\ (forall x, In x l1 -> ~ In x l2).
  Proof.
    induction l1 as [|a l1 IH]; simpl.
    - split; [intro H; repeat split; [constructor | assumption | intros x []] | tauto].
    - rewrite !NoDup_cons_iff, IH, in_app_iff. split.
      + intros [H1 [H2 [H3 H4]]]. repeat split; try tauto.
        intros x [E|Hx]; [subst; tauto | apply H4; assumption].
      + intros [[H1 H2] [H3 H4]]. repeat split; try tauto.
        * intros [H|H]; [tauto | apply (H4 a); [left; reflexivity | assumption]].
        * intros x Hx. apply H4. right; assumption.
  Qed.

  Lemma len_gt_false {A} (l : list A) z : len_gt l z = false <-> (Z.of_nat (length l) <= z)%Z.
  Proof. unfold len_gt. lia. Qed.

  Lemma check_rounds_iff rounds : forall seen,
    is_ok (check_rounds utg wg seen rounds) = true <->
    Forall (fun rd => (Z.of_nat (length rd) <= doc_round_limit)%Z) rounds /\
    Forall (proposal_rules utg wg) (concat rounds) /\
    NoDup (map p_wid (concat rounds)) /\ disj (map p_wid (concat rounds)) seen.
  Proof.
    induction rounds as [|rd t IH]; intro seen; simpl.
    - split; [intros _; repeat split; try constructor; intros x [] | reflexivity].
    - rewrite gen_round, !is_ok_seq, !andb_true_iff, is_ok_ite, negb_true_iff, len_gt_false by discriminate.
      rewrite check_proposals_iff, IH, Forall_cons_iff, Forall_app, map_app, NoDup_app_iff.
      assert (Hd : disj (map p_wid (concat t)) (rev (map p_wid rd) ++ seen) /\ disj (map p_wid rd) seen
                   <-> (forall x, In x (map p_wid rd) -> ~ In x (map p_wid (concat t)))
                       /\ disj (map p_wid rd ++ map p_wid (concat t)) seen).
      { unfold disj. split.
        - intros [H1 H2]. split.
          + intros x Hx Hc. apply (H1 x Hc). apply in_app_iff. left. apply in_rev in Hx. exact Hx.
          + intros x Hx. apply in_app_iff in Hx as [Hx|Hx]; [apply H2; assumption|].
            intro Hs. apply (H1 x Hx). apply in_app_iff. right; assumption.
        - intros [H1 H2]. split.
          + intros x Hx Hs. apply in_app_iff in Hs as [Hs|Hs].
            * apply in_rev in Hs. apply (H1 x Hs Hx).
            * apply (H2 x); [apply in_app_iff; right; assumption | assumption].
          + intros x Hx. apply H2. apply in_app_iff. left; assumption. }
      tauto.
  Qed.

  Lemma disj_nil l : disj l [] <-> True.
  Proof. unfold disj; split; auto. Qed.

  Theorem valid_obs_iff o : valid_obs utg wg o = true <-> obs_rules utg wg o.
  Proof.
    unfold valid_obs, obs_err, obs_rules. rewrite gen_props, gen_hist, gen_perf, gen_cond, gen_log.
    rewrite !is_ok_seq, !andb_true_iff, !is_ok_ite, !negb_true_iff, !len_gt_false by discriminate.
    rewrite check_hist_iff, check_results_iff, check_proposals_iff, !disj_nil.
    rewrite !Z.ltb_ge. tauto.
  Qed.

  Theorem valid_outcome_iff o : valid_outcome utg wg o = true <-> outcome_rules utg wg o.
  Proof.
    unfold valid_outcome, outcome_err, outcome_rules. rewrite gen_agreed, gen_rounds.
    rewrite !is_ok_seq, !andb_true_iff, !is_ok_ite, !negb_true_iff, !len_gt_false by discriminate.
    rewrite check_results_iff, check_rounds_iff, !disj_nil. tauto.
  Qed.

  Theorem valid_result_iff r : valid_result utg wg r = true <-> result_rules utg wg r.
  Proof. apply check_result_iff. Qed.
  Theorem valid_proposal_iff p : valid_proposal utg wg p = true <-> proposal_rules utg wg p.
  Proof. apply check_proposal_iff. Qed.
  Theorem valid_ext_iff t ut : valid_ext t ut = true <-> ext_rule t ut.
  Proof. apply check_ext_iff. Qed.

  (* ------------------------------------------------------------------ checker K *)
  Lemma price_rule_b_iff p : price_rule_b p = true <-> price_rule p.
  Proof.
    unfold price_rule_b, price_rule. destruct p as [v|].
    - split; [intro H; exists v; split; [reflexivity | lia] | intros [v' [E H]]; inversion E; subst; lia].
    - split; [discriminate | intros [v [E _]]; discriminate].
  Qed.

  Lemma ext_rule_b_iff t ut : ext_rule_b t ut = true <-> ext_rule t ut.
  Proof.
    unfold ext_rule_b, ext_rule, ut_cond, ut_log.
    destruct (N.eqb_spec ut 0) as [E|E]; destruct (N.eqb_spec ut 1) as [E1|E1]; try (subst; discriminate);
      destruct (t_ext t); simpl; split; try (intros; split; intros; congruence); try congruence.
    - intros [H _]. specialize (H E). discriminate.
    - intros [_ H]. specialize (H E1). congruence.
  Qed.

  Lemma result_rules_b_iff r : result_rules_b utg wg r = true <-> result_rules utg wg r.
  Proof.
    unfold result_rules_b, result_rules.
    rewrite !andb_true_iff, ext_rule_b_iff, !price_rule_b_iff, !negb_true_iff, !N.eqb_eq, N.eqb_neq.
    tauto.
  Qed.

  Lemma proposal_rules_b_iff p : proposal_rules_b utg wg p = true <-> proposal_rules utg wg p.
  Proof.
    unfold proposal_rules_b, proposal_rules. rewrite andb_true_iff, ext_rule_b_iff, N.eqb_eq. tauto.
  Qed.

  Lemma forallb_iff {A} (f : A -> bool) (P : A -> Prop) l :
    (forall x, f x = true <-> P x) -> (forallb f l = true <-> Forall P l).
  Proof.
    intro H. rewrite forallb_forall, Forall_forall. split; intros G x Hx; apply H, G, Hx.
  Qed.

  Lemma len_le_iff {A} (l : list A) z : len_le l z = true <-> (Z.of_nat (length l) <= z)%Z.
  Proof. unfold len_le. lia. Qed.

  Theorem obs_rules_b_iff o : obs_rules_b utg wg o = true <-> obs_rules utg wg o.
  Proof.
    unfold obs_rules_b, obs_rules.
    rewrite !andb_true_iff, !len_le_iff, !nodupb_NoDup, !Z.leb_le.
    rewrite (forallb_iff _ _ _ result_rules_b_iff), (forallb_iff _ _ _ proposal_rules_b_iff). tauto.
  Qed.

  Theorem outcome_rules_b_iff o : outcome_rules_b utg wg o = true <-> outcome_rules utg wg o.
  Proof.
    unfold outcome_rules_b, outcome_rules.
    rewrite !andb_true_iff, !len_le_iff, !nodupb_NoDup.
    rewrite (forallb_iff _ _ _ result_rules_b_iff), (forallb_iff _ _ _ proposal_rules_b_iff).
    rewrite (forallb_iff _ (fun rd => (Z.of_nat (length rd) <= doc_round_limit)%Z)
               _ (fun rd => len_le_iff rd _)). tauto.
  Qed.

  (* K agrees with the model on every input: K (model's accept) holds when the round trip is exact *)
  Theorem model_meets_K_obs o : C15_check_obs utg wg o (valid_obs utg wg o) true = true.
  Proof.
    unfold C15_check_obs. destruct (obs_rules_b utg wg o) eqn:E.
    - apply obs_rules_b_iff, valid_obs_iff in E. rewrite E. reflexivity.
    - destruct (valid_obs utg wg o) eqn:V; [|reflexivity].
      apply valid_obs_iff, obs_rules_b_iff in V. congruence.
  Qed.

  Theorem model_meets_K_outcome o : C15_check_outcome utg wg o (valid_outcome utg wg o) true = true.
  Proof.
    unfold C15_check_outcome. destruct (outcome_rules_b utg wg o) eqn:E.
    - apply outcome_rules_b_iff, valid_outcome_iff in E. rewrite E. reflexivity.
    - destruct (valid_outcome utg wg o) eqn:V; [|reflexivity].
      apply valid_outcome_iff, outcome_rules_b_iff in V. congruence.
  Qed.

  (* soundness of K as a judgement on an observed decode *)
  Definition C15_spec_obs (o : observation) (accepted same : bool) : Prop :=
    (obs_rules utg wg o -> accepted = true /\ same = true) /\ (~ obs_rules utg wg o -> accepted = false).
  Definition C15_spec_outcome (o : outcome) (accepted same : bool) : Prop :=
    (outcome_rules utg wg o -> accepted = true /\ same = true) /\ (~ outcome_rules utg wg o -> accepted = false).

  Theorem C15_check_obs_sound o a s : C15_check_obs utg wg o a s = true <-> C15_spec_obs o a s.
  Proof.
    unfold C15_check_obs, C15_spec_obs. destruct (obs_rules_b utg wg o) eqn:E.
    - apply obs_rules_b_iff in E. rewrite andb_true_iff. tauto.
    - assert (~ obs_rules utg wg o) by (rewrite <- obs_rules_b_iff; congruence).
      rewrite negb_true_iff. tauto.
  Qed.

  Theorem C15_check_outcome_sound o a s : C15_check_outcome utg wg o a s = true <-> C15_spec_outcome o a s.
  Proof.
    unfold C15_check_outcome, C15_spec_outcome. destruct (outcome_rules_b utg wg o) eqn:E.
    - apply outcome_rules_b_iff in E. rewrite andb_true_iff. tauto.
    - assert (~ outcome_rules utg wg o) by (rewrite <- outcome_rules_b_iff; congruence).
      rewrite negb_true_iff. tauto.
  Qed.

  (* ------------------------------------------------------------------ each rule on its own *)
  Definition breaks_result (r : result) : Prop := ~ result_rules utg wg r.

  (* observation: limits *)
  Lemma obs_hist_limit o : (Z.of_nat (length (o_hist o)) > doc_hist_limit)%Z -> valid_obs utg wg o = false.
  Proof. intro H. destruct (valid_obs utg wg o) eqn:V; [|reflexivity]. apply valid_obs_iff in V. unfold obs_rules in V. lia. Qed.
  Lemma obs_perf_limit o : (Z.of_nat (length (o_perf o)) > doc_perf_limit)%Z -> valid_obs utg wg o = false.
  Proof. intro H. destruct (valid_obs utg wg o) eqn:V; [|reflexivity]. apply valid_obs_iff in V. unfold obs_rules in V. lia. Qed.
  Lemma obs_props_limit o :
    (Z.of_nat (length (o_props o)) > doc_props_limit)%Z ->
    valid_obs utg wg o = false.
  Proof. intro H. destruct (valid_obs utg wg o) eqn:V; [|reflexivity]. apply valid_obs_iff in V. unfold obs_rules in V. lia. Qed.
  Lemma obs_cond_limit o :
    (Z.of_nat (count_type utg ut_cond (o_props o)) > doc_cond_limit)%Z -> valid_obs utg wg o = false.
  Proof. intro H. destruct (valid_obs utg wg o) eqn:V; [|reflexivity]. apply valid_obs_iff in V. unfold obs_rules in V. lia. Qed.
  Lemma obs_log_limit o :
    (Z.of_nat (count_type utg ut_log (o_props o)) > doc_log_limit)%Z -> valid_obs utg wg o = false.
  Proof. intro H. destruct (valid_obs utg wg o) eqn:V; [|reflexivity]. apply valid_obs_iff in V. unfold obs_rules in V. lia. Qed.

  (* observation: duplicates *)
  Lemma obs_hist_dup o : ~ NoDup (map bk_num (o_hist o)) -> valid_obs utg wg o = false.
  Proof. intro H. destruct (valid_obs utg wg o) eqn:V; [|reflexivity]. apply valid_obs_iff in V. unfold obs_rules in V. tauto. Qed.
  Lemma obs_perf_dup o : ~ NoDup (map r_wid (o_perf o)) -> valid_obs utg wg o = false.
  Proof. intro H. destruct (valid_obs utg wg o) eqn:V; [|reflexivity]. apply valid_obs_iff in V. unfold obs_rules in V. tauto. Qed.
  Lemma obs_props_dup o : ~ NoDup (map p_wid (o_props o)) -> valid_obs utg wg o = false.
  Proof. intro H. destruct (valid_obs utg wg o) eqn:V; [|reflexivity]. apply valid_obs_iff in V. unfold obs_rules in V. tauto. Qed.

  (* a bad result / proposal anywhere *)
  Lemma obs_bad_result o r : In r (o_perf o) -> ~ result_rules utg wg r -> valid_obs utg wg o = false.
  Proof.
    intros Hin H. destruct (valid_obs utg wg o) eqn:V; [|reflexivity]. apply valid_obs_iff in V.
    destruct V as [_ [_ [_ [F _]]]]. rewrite Forall_forall in F. exfalso. apply H, F, Hin.
  Qed.
  Lemma obs_bad_proposal o p : In p (o_props o) -> ~ proposal_rules utg wg p -> valid_obs utg wg o = false.
  Proof.
    intros Hin H. destruct (valid_obs utg wg o) eqn:V; [|reflexivity]. apply valid_obs_iff in V.
    destruct V as [_ [_ [_ [_ [_ [_ [F _]]]]]]]. rewrite Forall_forall in F. exfalso. apply H, F, Hin.
  Qed.
  Lemma outcome_bad_result o r : In r (oc_agreed o) -> ~ result_rules utg wg r -> valid_outcome utg wg o = false.
  Proof.
    intros Hin H. destruct (valid_outcome utg wg o) eqn:V; [|reflexivity]. apply valid_outcome_iff in V.
    destruct V as [_ [F _]]. rewrite Forall_forall in F. exfalso. apply H, F, Hin.
  Qed.
  Lemma outcome_bad_proposal o rd p :
    In rd (oc_surfaced o) -> In p rd -> ~ proposal_rules utg wg p -> valid_outcome utg wg o = false.
  Proof.
    intros Hr Hin H. destruct (valid_outcome utg wg o) eqn:V; [|reflexivity]. apply valid_outcome_iff in V.
    destruct V as [_ [_ [_ [_ [_ [F _]]]]]]. rewrite Forall_forall in F. exfalso. apply H, F.
    apply in_concat. exists rd. split; assumption.
  Qed.

  (* the single ways of breaking result_rules / proposal_rules *)
  Lemma bad_state r : r_state r <> 0 -> ~ result_rules utg wg r.
  Proof. unfold result_rules. tauto. Qed.
  Lemma bad_retryable r : r_retryable r = true -> ~ result_rules utg wg r.
  Proof. unfold result_rules. intros H [_ [G _]]. congruence. Qed.
  Lemma bad_ineligible r : r_eligible r = false -> ~ result_rules utg wg r.
  Proof. unfold result_rules. intros H [_ [_ [G _]]]. congruence. Qed.
  Lemma bad_reason r : r_reason r <> 0 -> ~ result_rules utg wg r.
  Proof. unfold result_rules. tauto. Qed.
  Lemma bad_ext_cond r e : utg (r_upk r) = ut_cond -> t_ext (r_trig r) = Some e -> ~ result_rules utg wg r.
  Proof. unfold result_rules, ext_rule. intros H1 H2 [_ [_ [_ [_ [[G _] _]]]]]. specialize (G H1). congruence. Qed.
  Lemma bad_ext_log r : utg (r_upk r) = ut_log -> t_ext (r_trig r) = None -> ~ result_rules utg wg r.
  Proof. unfold result_rules, ext_rule. intros H1 H2 [_ [_ [_ [_ [[_ G] _]]]]]. specialize (G H1). congruence. Qed.
  Lemma bad_workid r : wg (r_upk r) (r_trig r) <> r_wid r -> ~ result_rules utg wg r.
  Proof. unfold result_rules. tauto. Qed.
  Lemma bad_gas r : r_gas r = 0 -> ~ result_rules utg wg r.
  Proof. unfold result_rules. tauto. Qed.
  Lemma bad_price p : p = None \/ (exists v, p = Some v /\ (v < 0 \/ v > uint256_max)%Z) -> ~ price_rule p.
  Proof.
    unfold price_rule. intros [H|[v [H1 H2]]] [v' [E G]]; subst; [discriminate|]. inversion E; subst. lia.
  Qed.
  Lemma bad_fgw r : ~ price_rule (r_fgw r) -> ~ result_rules utg wg r.
  Proof. unfold result_rules. tauto. Qed.
  Lemma bad_ln r : ~ price_rule (r_ln r) -> ~ result_rules utg wg r.
  Proof. unfold result_rules. tauto. Qed.
  Lemma bad_prop_ext_cond p e : utg (p_upk p) = ut_cond -> t_ext (p_trig p) = Some e -> ~ proposal_rules utg wg p.
  Proof. unfold proposal_rules, ext_rule. intros H1 H2 [[G _] _]. specialize (G H1). congruence. Qed.
  Lemma bad_prop_ext_log p : utg (p_upk p) = ut_log -> t_ext (p_trig p) = None -> ~ proposal_rules utg wg p.
  Proof. unfold proposal_rules, ext_rule. intros H1 H2 [[_ G] _]. specialize (G H1). congruence. Qed.
  Lemma bad_prop_workid p : wg (p_upk p) (p_trig p) <> p_wid p -> ~ proposal_rules utg wg p.
  Proof. unfold proposal_rules. tauto. Qed.

  (* outcome: limits and duplicates *)
  Lemma outcome_agreed_limit o : (Z.of_nat (length (oc_agreed o)) > doc_agreed_limit)%Z -> valid_outcome utg wg o = false.
  Proof. intro H. destruct (valid_outcome utg wg o) eqn:V; [|reflexivity]. apply valid_outcome_iff in V. unfold outcome_rules in V. lia. Qed.
  Lemma outcome_rounds_limit o : (Z.of_nat (length (oc_surfaced o)) > doc_rounds_limit)%Z -> valid_outcome utg wg o = false.
  Proof. intro H. destruct (valid_outcome utg wg o) eqn:V; [|reflexivity]. apply valid_outcome_iff in V. unfold outcome_rules in V. lia. Qed.
  Lemma outcome_round_limit o rd :
    In rd (oc_surfaced o) -> (Z.of_nat (length rd) > doc_round_limit)%Z -> valid_outcome utg wg o = false.
  Proof.
    intros Hin H. destruct (valid_outcome utg wg o) eqn:V; [|reflexivity]. apply valid_outcome_iff in V.
    destruct V as [_ [_ [_ [_ [F _]]]]]. rewrite Forall_forall in F. specialize (F rd Hin). simpl in F. lia.
  Qed.
  Lemma outcome_agreed_dup o : ~ NoDup (map r_wid (oc_agreed o)) -> valid_outcome utg wg o = false.
  Proof. intro H. destruct (valid_outcome utg wg o) eqn:V; [|reflexivity]. apply valid_outcome_iff in V. unfold outcome_rules in V. tauto. Qed.
  Lemma outcome_surfaced_dup o : ~ NoDup (map p_wid (concat (oc_surfaced o))) -> valid_outcome utg wg o = false.
  Proof. intro H. destruct (valid_outcome utg wg o) eqn:V; [|reflexivity]. apply valid_outcome_iff in V. unfold outcome_rules in V. tauto. Qed.
End V.
