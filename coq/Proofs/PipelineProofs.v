(* Lemmas about result routing (Model/Pipeline.v). *)
From Verif Require Import Base.Util Model.Runner Model.RetryQueue Model.Pipeline Proofs.RunnerProofs.
From Coq Require Import ZifyBool ZifyNat ZifyN Lia.
Open Scope N_scope.

(* ------------------------------------------------------------------------------ *)
(* the repaired retry post-processor never indexes out of range *)

Lemma retry_pp_fixed_ok rs : forall pos pls acc err,
  exists enq err', retry_pp true rs pos pls acc err = RpOk (rev acc ++ enq) err'.
Proof.
  induction rs as [|r t IH]; intros pos pls acc err; cbn [retry_pp].
  - exists [], err. rewrite app_nil_r. reflexivity.
  - destruct (retry_fail r); [|apply IH].
    destruct (payload_of true r pos pls) as [p|].
    + destruct (IH (S pos) pls ((p, r_ivl r) :: acc) err) as [enq [err' H]].
      exists ((p, r_ivl r) :: enq), err'. rewrite H. simpl. rewrite <- app_assoc. reflexivity.
    + apply IH.
Qed.

Lemma find_exact_spec r pls p : find_exact r pls = Some p -> In p pls /\ pl_key p = r_key r.
Proof.
  induction pls as [|q t IH]; cbn [find_exact]; [discriminate|].
  destruct (key3_eqb (pl_key q) (r_key r)) eqn:E.
  - intro H; inversion H; subst. apply key3_eqb_eq in E. split; [left; reflexivity | exact E].
  - intro H. destruct (IH H). split; [right; assumption | assumption].
Qed.

Lemma find_exact_some r pls : (exists p, In p pls /\ pl_key p = r_key r) -> exists p, find_exact r pls = Some p.
Proof.
  induction pls as [|q t IH]; intros [p [Hp Hk]]; [destruct Hp|]. cbn [find_exact].
  destruct (key3_eqb (pl_key q) (r_key r)) eqn:E; [eexists; reflexivity|].
  destruct Hp as [Hp|Hp].
  - subst q. rewrite (proj2 (key3_eqb_eq _ _) Hk) in E. discriminate.
  - apply IH. exists p. auto.
Qed.

Definition pairs_own (pls : list payload) (r : result) (e : payload * Z) : Prop :=
  In (fst e) pls /\ pl_key (fst e) = r_key r /\ snd e = r_ivl r.

(* every retryable failure that carries a work id for which the call has a payload on the same
   check block is retried with such a payload and its own interval; nothing else is retried *)
Lemma retry_pp_own pls rs : forall pos acc,
  (forall r, In r rs -> retry_fail r = true -> r_wid r <> 0 /\ exists p, In p pls /\ pl_key p = r_key r) ->
  exists enq, retry_pp true rs pos pls acc false = RpOk (rev acc ++ enq) false
              /\ Forall2 (pairs_own pls) (filter retry_fail rs) enq.
Proof.
  induction rs as [|r t IH]; intros pos acc H; cbn [retry_pp filter].
  - exists []. rewrite app_nil_r. split; [reflexivity | constructor].
  - destruct (retry_fail r) eqn:F.
    + destruct (H r (or_introl eq_refl) F) as [Hw Hp].
      unfold payload_of. destruct (N.eqb (r_wid r) 0) eqn:W; [apply N.eqb_eq in W; congruence|].
      destruct (find_exact_some r pls Hp) as [p Hf]. rewrite Hf.
      destruct (IH (S pos) ((p, r_ivl r) :: acc)) as [enq [E1 E2]].
      { intros r' Hr'. apply H. right. exact Hr'. }
      exists ((p, r_ivl r) :: enq). split.
      * rewrite E1. simpl. rewrite <- app_assoc. reflexivity.
      * constructor; [|exact E2]. destruct (find_exact_spec _ _ _ Hf). split; [|split]; auto.
    + apply IH. intros r' Hr'. apply H. right. exact Hr'.
Qed.

(* ------------------------------------------------------------------------------ *)
(* postprocess: what reaches each sink *)

Lemma postprocess_fixed ufail qfail k rs pls :
  sk_staged (postprocess true ufail qfail k rs pls) = (if has_stage k then filter elig_ok rs else [])
  /\ sk_inelig (postprocess true ufail qfail k rs pls) = (if has_inelig k then filter inelig_ok rs else [])
  /\ sk_props (postprocess true ufail qfail k rs pls) = (if has_prop k then filter elig_ok rs else [])
  /\ sk_panic (postprocess true ufail qfail k rs pls) = false
  /\ (has_retry k = false -> sk_enq (postprocess true ufail qfail k rs pls) = []).
Proof.
  unfold postprocess. destruct (has_retry k) eqn:R.
  - destruct (retry_pp_fixed_ok rs 0 pls [] false) as [enq [err H]]. rewrite H. simpl.
    repeat split; try reflexivity. discriminate.
  - simpl. repeat split; reflexivity.
Qed.

Lemma filter_app_perm {A} (f : A -> bool) l l' : Permutation l l' -> Permutation (filter f l) (filter f l').
Proof.
  induction 1; simpl.
  - constructor.
  - destruct (f x); [constructor|]; assumption.
  - destruct (f x), (f y); try constructor; try apply Permutation_refl.
  - eapply Permutation_trans; eassumption.
Qed.

Section ProcessFacts.
  Variable pipe  : list job -> list result.
  Variable bfail : list job -> bool.
  Variable cexp  : Z.
  Variable wlimit : nat.
  Variable ufail qfail : list N.
  Hypothesis wlimit_pos : (0 < wlimit)%nat.

  (* the successfully checked results of one call: cached hits and results of batches that succeeded *)
  Definition checked (c : cache) (cnt : counters) (t : Z) (pls : list payload) (bs : list (list job)) : list result :=
    map snd (fst (lookup c t pls)) ++ flat_map pipe (filter (okb bfail) bs).

  Lemma process_outcome fixed k c cnt t pls ord :
    snd (process pipe bfail cexp wlimit ufail qfail fixed k c cnt t pls ord) =
    match snd (check pipe bfail cexp wlimit c cnt t pls ord) with
    | Ok rs => Some (postprocess fixed ufail qfail k rs pls)
    | _ => None
    end.
  Proof.
    unfold process. destruct (check pipe bfail cexp wlimit c cnt t pls ord) as [[c' cnt'] o].
    simpl. destruct o; reflexivity.
  Qed.

  (* routing of one Process call, for every cache, payload list, pipeline, failure pattern and
     completion order *)
  Theorem process_routes k c cnt t pls ord :
    (forall bs, Permutation (map fst (ord bs)) bs) ->
    exists bs, unflatten (jobs_of c cnt t pls) wlimit = Some bs /\
      match snd (process pipe bfail cexp wlimit ufail qfail true k c cnt t pls ord) with
      | Some sk =>
          (bs = [] \/ exists b, In b bs /\ bfail b = false)
          /\ Permutation (sk_staged sk) (if has_stage k then filter elig_ok (checked c cnt t pls bs) else [])
          /\ Permutation (sk_inelig sk) (if has_inelig k then filter inelig_ok (checked c cnt t pls bs) else [])
          /\ Permutation (sk_props sk) (if has_prop k then filter elig_ok (checked c cnt t pls bs) else [])
          /\ sk_panic sk = false
      | None => bs <> [] /\ forall b, In b bs -> bfail b = true
      end.
  Proof.
    intro Hord.
    destruct (check_results pipe bfail cexp wlimit c cnt t pls ord wlimit_pos Hord) as [bs [H1 [_ [_ [_ H5]]]]].
    exists bs. split; [exact H1|]. rewrite process_outcome.
    destruct (snd (check pipe bfail cexp wlimit c cnt t pls ord)) as [rs| |].
    - destruct H5 as [H5 H6]. destruct (postprocess_fixed ufail qfail k rs pls) as [A [B [C [D _]]]].
      split; [exact H6|]. rewrite A, B, C, D. unfold checked.
      split; [destruct (has_stage k); [apply filter_app_perm; exact H5 | constructor]|].
      split; [destruct (has_inelig k); [apply filter_app_perm; exact H5 | constructor]|].
      split; [destruct (has_prop k); [apply filter_app_perm; exact H5 | constructor] | reflexivity].
    - exact H5.
    - destruct H5.
  Qed.

  (* every retryable failure of a call is retried with a payload of that call on the same work
     id, block and hash, with the result's own interval — given a pipeline that answers each
     payload of a batch once under the payload's work id/block/hash, and non-empty work ids *)
  Theorem process_retry_own (P : result -> Prop) k c cnt t pls ord :
    (forall bs, Permutation (map fst (ord bs)) bs) -> pipe_wf pipe -> cache_wf P c ->
    (forall p, In p pls -> pl_wid p <> 0) -> has_retry k = true ->
    forall sk, snd (process pipe bfail cexp wlimit ufail qfail true k c cnt t pls ord) = Some sk ->
    sk_panic sk = false /\
    exists rs, snd (check pipe bfail cexp wlimit c cnt t pls ord) = Ok rs
               /\ Forall2 (pairs_own pls) (filter retry_fail rs) (sk_enq sk)
               /\ sk_err sk = sink_err ufail qfail k rs (sk_enq sk).
  Proof.
    intros Hord Hp Hc Hw Hk sk Hs.
    destruct (check_results pipe bfail cexp wlimit c cnt t pls ord wlimit_pos Hord) as [bs [H1 [H2 [H3 [H4 H5]]]]].
    rewrite process_outcome in Hs.
    destruct (snd (check pipe bfail cexp wlimit c cnt t pls ord)) as [rs| |]; try discriminate.
    inversion Hs; subst sk; clear Hs. destruct H5 as [H5 _].
    assert (Hown : forall r, In r rs -> retry_fail r = true ->
                   r_wid r <> 0 /\ exists p, In p pls /\ pl_key p = r_key r).
    { intros r Hr Hf. apply (Permutation_in _ H5) in Hr. apply in_app_or in Hr as [Hr|Hr].
      - (* a cached hit is a success *)
        apply in_map_iff in Hr as [[p r'] [E Hin]]. simpl in E. subst r'.
        pose proof (lookup_hits c t pls) as Hh. rewrite Forall_forall in Hh. specialize (Hh _ Hin). simpl in Hh.
        destruct (hit_served_exact P c t p r Hc Hh) as [_ [_ [_ [S _]]]].
        unfold retry_fail in Hf. rewrite S in Hf. discriminate.
      - apply in_flat_map in Hr as [b [Hb Hr]]. apply filter_In in Hb as [Hb _].
        assert (Hkey : In (r_key r) (map (fun j => pl_key (fst j)) b)).
        { rewrite <- Hp. apply in_map. exact Hr. }
        apply in_map_iff in Hkey as [j [Hj1 Hj2]].
        assert (Hjin : In (fst j) pls).
        { apply (Permutation_in _ (Permutation_sym H4)). apply in_or_app. right.
          rewrite <- H3. apply in_map. rewrite <- H2. apply in_concat. exists b. auto. }
        split.
        + assert (Hwr : r_wid r = pl_wid (fst j)).
          { unfold r_key, pl_key in Hj1. inversion Hj1. reflexivity. }
          rewrite Hwr. apply Hw. exact Hjin.
        + exists (fst j). auto. }
    unfold postprocess. rewrite Hk.
    destruct (retry_pp_own pls rs 0 [] Hown) as [enq [E1 E2]]. rewrite E1. simpl.
    split; [reflexivity|]. exists rs. split; [reflexivity|]. split; [exact E2 | reflexivity].
  Qed.
End ProcessFacts.

(* ------------------------------------------------------------------------------ *)
(* the pinned commit's pairing by position: refuted *)

Lemma spipe_wf sc : (forall tag att, s_mode (spec_of sc tag att) = 0) -> pipe_wf (spipe sc).
Proof.
  intros H b. unfold spipe. induction b as [|j t IH]; simpl; [reflexivity|].
  rewrite map_app, IH. unfold pipe1. rewrite (H (pl_tag (fst j)) (snd j)). simpl.
  unfold res_of. rewrite (H (pl_tag (fst j)) (snd j)). simpl. reflexivity.
Qed.

(* payloads [B; A], A cached: the runner returns [resA; resB]; resB failed retryably; the code at
   the pinned commit enqueues payloads[1] = A for retry and B is lost *)
Lemma retry_positional_refuted :
  exists sc c pls ord rs rB pA,
    pipe_wf (spipe sc) /\ cache_wf (fun _ => True) c /\ (forall p, In p pls -> pl_wid p <> 0)
    /\ (forall bs, Permutation (map fst (ord bs)) bs)
    /\ snd (check (spipe sc) (sfail sc) 1000 10 c [] 5%Z pls ord) = Ok rs
    /\ filter retry_fail rs = [rB]
    /\ (exists sk, snd (process (spipe sc) (sfail sc) 1000 10 [] [] false KLog c [] 5%Z pls ord) = Some sk
                   /\ sk_enq sk = [(pA, r_ivl rB)])
    /\ pl_wid pA <> r_wid rB
    /\ ~ Forall2 (pairs_own pls) (filter retry_fail rs) [(pA, r_ivl rB)].
Proof.
  set (sc := [(2, [mkSpec 1 true false 7 0])] : script).
  set (resA := mkRes 1 5 9 0 false true 0 100 0).
  set (pA := mkPl 1 5 9 1). set (pB := mkPl 2 5 9 2).
  exists sc, [(1, (resA, 0%Z))], [pB; pA], (fun bs => map (fun b => (b, 6%Z)) bs),
         [resA; mkRes 2 5 9 1 true false 7 2 0], (mkRes 2 5 9 1 true false 7 2 0), pA.
  split.
  { apply spipe_wf. intros tag att. unfold spec_of, sc. cbn [script_find].
    destruct (N.eqb 2 tag); [destruct (N.to_nat att)|]; reflexivity. }
  split.
  { intros k r e H. simpl in H. destruct (N.eqb k 1) eqn:E; [|discriminate].
    apply N.eqb_eq in E. inversion H; subst. auto. }
  split.
  { intros p [H|[H|[]]]; subst p; simpl; discriminate. }
  split.
  { intro bs. rewrite map_map. simpl. rewrite map_id. apply Permutation_refl. }
  split; [vm_compute; reflexivity|].
  split; [vm_compute; reflexivity|].
  split; [eexists; split; vm_compute; reflexivity|].
  split; [simpl; discriminate|].
  intro H. inversion H as [|x y l l' Hxy Hl]; subst. destruct Hxy as [_ [Hk _]]. vm_compute in Hk. discriminate.
Qed.

(* more results than payloads (a pipeline that answers a payload twice): payloads[i] is out of range *)
Lemma retry_positional_out_of_range :
  exists sc pls ord,
    (forall bs, Permutation (map fst (ord bs)) bs)
    /\ (exists sk, snd (process (spipe sc) (sfail sc) 1000 10 [] [] false KLog [] [] 5%Z pls ord) = Some sk
                   /\ sk_panic sk = true)
    /\ (exists sk, snd (process (spipe sc) (sfail sc) 1000 10 [] [] true KLog [] [] 5%Z pls ord) = Some sk
                   /\ sk_panic sk = false /\ length (sk_enq sk) = 2%nat).
Proof.
  exists [(1, [mkSpec 1 true false 0 3])], [mkPl 1 5 9 1], (fun bs => map (fun b => (b, 6%Z)) bs).
  split.
  { intro bs. rewrite map_map. simpl. rewrite map_id. apply Permutation_refl. }
  split; eexists; repeat split; vm_compute; reflexivity.
Qed.

(* ------------------------------------------------------------------------------ *)
(* Checker K for routing *)

Inductive enq_rel (pls : list payload) : list result -> list (payload * Z) -> Prop :=
| ER_nil : enq_rel pls [] []
| ER_skip r t e : retry_fail r = false -> enq_rel pls t e -> enq_rel pls (r :: t) e
| ER_own r t p o e : retry_fail r = true -> r_wid r <> 0 -> In p pls ->
                     In o pls -> pl_tag o = r_tag r -> pl_key p = pl_key o ->
                     pl_key p = r_key r -> enq_rel pls t e -> enq_rel pls (r :: t) ((p, r_ivl r) :: e)
| ER_noid_none r t e : retry_fail r = true -> r_wid r = 0 -> enq_rel pls t e -> enq_rel pls (r :: t) e
| ER_noid_some r t p e : retry_fail r = true -> r_wid r = 0 -> In p pls -> enq_rel pls t e ->
                         enq_rel pls (r :: t) ((p, r_ivl r) :: e).

Lemma own_payload_spec r pls o : own_payload r pls = Some o -> In o pls /\ pl_tag o = r_tag r.
Proof.
  induction pls as [|p t IH]; simpl; [discriminate|].
  destruct (N.eqb (pl_tag p) (r_tag r)) eqn:E.
  - intro H; inversion H; subst. apply N.eqb_eq in E. split; [left; reflexivity | exact E].
  - intro H. destruct (IH H). split; [right; assumption | assumption].
Qed.

Lemma enq_ok_sound pls rs : forall enq, enq_ok pls rs enq = true -> enq_rel pls rs enq.
Proof.
  induction rs as [|r t IH]; intros enq H; cbn [enq_ok] in H.
  - destruct enq; [constructor | discriminate].
  - destruct (retry_fail r) eqn:F; [|apply ER_skip; [exact F | apply IH; exact H]].
    destruct (N.eqb (r_wid r) 0) eqn:W.
    + apply N.eqb_eq in W. apply orb_true_iff in H as [H|H].
      * apply ER_noid_none; auto.
      * destruct enq as [|[p i] e']; [discriminate|].
        apply andb_true_iff in H as [H H3]. apply andb_true_iff in H as [H1 H2].
        apply (existsb_by_In payload_eqb payload_eqb_eq) in H1. apply Z.eqb_eq in H2. subst i.
        apply ER_noid_some; auto.
    + apply N.eqb_neq in W. destruct enq as [|[p i] e']; [discriminate|].
      destruct (own_payload r pls) as [o|] eqn:O; [|discriminate].
      apply andb_true_iff in H as [H H5]. apply andb_true_iff in H as [H H4]. apply andb_true_iff in H as [H H3].
      apply andb_true_iff in H as [H1 H2].
      apply (existsb_by_In payload_eqb payload_eqb_eq) in H1. apply key3_eqb_eq in H2, H3. apply Z.eqb_eq in H4. subst i.
      destruct (own_payload_spec _ _ _ O). eapply ER_own; eauto.
Qed.

Definition C12_route_spec (k : kind) (pls : list payload) (o : step_obs) : Prop :=
  if N.eqb (so_err o) 1
  then so_staged o = [] /\ so_inelig o = [] /\ so_props o = [] /\ so_enq o = []
  else so_err o <> 3
       /\ so_staged o = (if has_stage k then filter elig_ok (so_results o) else [])
       /\ so_inelig o = (if has_inelig k then filter inelig_ok (so_results o) else [])
       /\ so_props o = map r_key (if has_prop k then filter elig_ok (so_results o) else [])
       /\ (if has_retry k then enq_rel pls (so_results o) (so_enq o) else so_enq o = []).

Lemma results_eqb_eq a b : results_eqb a b = true <-> a = b.
Proof. apply list_eqb_eq. apply result_eqb_eq. Qed.

Theorem C12_route_check_sound k pls o : C12_route_check k pls o = true -> C12_route_spec k pls o.
Proof.
  unfold C12_route_check, C12_route_spec. destruct (N.eqb (so_err o) 1).
  - destruct (so_staged o), (so_inelig o), (so_props o), (so_enq o); try discriminate. auto.
  - intro H. apply andb_true_iff in H as [H H5]. apply andb_true_iff in H as [H H4].
    apply andb_true_iff in H as [H H3]. apply andb_true_iff in H as [H1 H2].
    split; [apply negb_true_iff, N.eqb_neq in H1; exact H1|].
    split; [apply results_eqb_eq; exact H2|]. split; [apply results_eqb_eq; exact H3|].
    split; [apply (list_eqb_eq key3_eqb key3_eqb_eq); exact H4|].
    destruct (has_retry k); [apply enq_ok_sound; exact H5 | destruct (so_enq o); [reflexivity | discriminate]].
Qed.
