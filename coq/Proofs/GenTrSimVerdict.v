(* Simulator verdict and summary: the hand-written model (Model/SimVerdict.v) takes the decisions of the code as
   /verif/gen translated them from /repo's current tools/simulator sources (Gen/GeneratedTr.v). *)
From Coq Require Import ZArith NArith Bool List Lia ZifyBool ZifyN ZifyNat.
From Verif Require Import Base.GenIR Gen.Generated Gen.GeneratedTr Model.SimVerdict.
Import ListNotations.
Open Scope Z_scope.

Lemma fold_left_ext : forall (A B : Type) (f g : A -> B -> A) l a,
  (forall a b, f a b = g a b) -> fold_left f l a = fold_left g l a.
Proof. intros A B f g l. induction l as [|x l IH]; intros a H; cbn [fold_left]; [reflexivity|]. rewrite H. apply IH. exact H. Qed.

(* ---------------- calculateExpectedPerformEvents ---------------- *)
(* big.Int.Cmp on block numbers *)
Definition cmpN (a b : N) : Z := match N.compare a b with Lt => -1 | Eq => 0 | Gt => 1 end.

Lemma cmpN_ge0 : forall a b, (cmpN a b >=? 0) = (b <=? a)%N.
Proof.
  intros. unfold cmpN. destruct (N.compare_spec a b); destruct (N.leb_spec b a); try reflexivity; exfalso; lia.
Qed.

(* logTriggersUpkeep: the log is not older than the upkeep and carries its trigger value, and the upkeep is always
   eligible or has an eligibility block at or after the log *)
Definition log_triggers_gen (l : g_log) (u : g_upkeep) : bool :=
  match g_sim_log_triggers (cmpN (gl_at l) (gu_create u)) (N.eqb (gl_val l) (gu_trig u)) (gu_always u) with
  | (_, RetB true) => true
  | ([1], RetB false) =>
      existsb (fun b => match g_sim_log_triggers_block (cmpN b (gl_at l)) with (_, RetB true) => true | _ => false end)
              (gu_elig u)
  | _ => false
  end.

Lemma existsb_ext' : forall (A : Type) (f g : A -> bool) l, (forall x, f x = g x) -> existsb f l = existsb g l.
Proof. intros A f g l H. induction l as [|x l IH]; cbn [existsb]; [reflexivity|]. rewrite H, IH. reflexivity. Qed.

Lemma gen_sim_log_triggers : forall l u, log_triggers l u = log_triggers_gen l u.
Proof.
  intros. unfold log_triggers, log_triggers_gen, g_sim_log_triggers, g_sim_log_triggers_block, cmpN.
  destruct (N.compare_spec (gl_at l) (gu_create u)); destruct (N.leb_spec (gu_create u) (gl_at l)); try (exfalso; lia);
    destruct (N.eqb (gl_val l) (gu_trig u)), (gu_always u); cbn [andb orb negb]; gen_split; cbn [andb orb negb];
    try reflexivity; try (exfalso; lia);
    apply existsb_ext'; intros b;
    destruct (N.compare_spec b (gl_at l)); destruct (N.leb_spec (gl_at l) b); try (exfalso; lia);
    gen_split; try reflexivity; exfalso; lia.
Qed.

(* one upkeep of the count loop: skipped unless expected; a conditional upkeep adds one perform per eligibility block (1),
   a log-trigger upkeep one per log that triggers it (2); other types add nothing *)
Definition exp_step (logs : list g_log) (count : Z) (u : g_upkeep) : Z :=
  match g_sim_expected_upkeep (gu_expected u) (Z.of_N (gu_type u)) SimConditionalType SimLogTriggerType with
  | ([1], Fall) => count + zlen (gu_elig u)
  | ([2], Fall) => fold_left (fun c l => match g_sim_expected_log (log_triggers_gen l u) with
                                         | ([1], Fall) => c + 1
                                         | _ => c
                                         end) logs count
  | _ => count
  end.

Lemma ofN_eqb : forall (a : N) (k : N), (Z.of_N a =? Z.of_N k) = N.eqb a k.
Proof. intros. destruct (N.eqb_spec a k); destruct (Z.eqb_spec (Z.of_N a) (Z.of_N k)); try reflexivity; exfalso; lia. Qed.

Lemma ofN_eqb_0 : forall a : N, (Z.of_N a =? 0) = N.eqb a 0.
Proof. intros. exact (ofN_eqb a 0%N). Qed.
Lemma ofN_eqb_1 : forall a : N, (Z.of_N a =? 1) = N.eqb a 1.
Proof. intros. exact (ofN_eqb a 1%N). Qed.

Lemma gen_sim_expected : forall ups logs, expected_performs ups logs = fold_left (exp_step logs) ups 0.
Proof.
  intros. unfold expected_performs. apply fold_left_ext. intros count u.
  unfold exp_step, g_sim_expected_upkeep, SimConditionalType, SimLogTriggerType.
  destruct (gu_expected u); cbn [negb]; [|reflexivity].
  gen_split; try reflexivity; try (exfalso; lia).
  apply fold_left_ext. intros c l. rewrite <- gen_sim_log_triggers. unfold g_sim_expected_log.
  destruct (log_triggers l u); reflexivity.
Qed.

(* whole function: a generation error is returned with the count so far (zero); otherwise the loop runs *)
Lemma gen_sim_expected_outer : forall e2,
  g_sim_expected true e2 = ([], RetO 1) /\ g_sim_expected false true = ([], RetO 1) /\ g_sim_expected false false = ([1], RetO 0).
Proof. intros. repeat split. Qed.

(* countPerformEvents: a report that does not decode counts for nothing *)
Lemma gen_sim_count_performs : forall n, g_sim_count_performs true n = ([], RetZ 0) /\ g_sim_count_performs false n = ([], RetZ n).
Proof. intros. split; reflexivity. Qed.

(* ---------------- ProgressTelemetry.track ---------------- *)
(* what the tracker calls do to the model's tracker state; [k] is the increment received *)
Definition trk_action (k : Z) (t : trk) (a : Z) : trk :=
  match a with
  | 1 => mkTrk (k_total t) (k_value t) true (k_failed t)                       (* MarkAsErrored: errored trackers are done *)
  | 2 => mkTrk (k_total t) (k_value t) (k_done t) true                         (* failed.Add(1) *)
  | 3 => let v := k_value t + k in                                              (* Increment: done once the total is reached *)
         mkTrk (k_total t) v (k_done t || ((0 <? k_total t) && (k_total t <=? v))) (k_failed t)
  | 4 => mkTrk (k_total t) (k_value t) true (k_failed t)                       (* MarkAsDone *)
  | _ => t
  end.

Definition track_body_gen (t : trk) (m : tmsg) : trk :=
  let '(inc, k) := match m with MInc k => (true, k) | MClose => (false, 0) end in
  fold_left (trk_action k) (fst (g_sim_track_body inc (k_total t =? 0) (k_value t) (k_total t))) t.

(* one turn of the tracking loop: for a tracker that is still running (not done, not failed, total not yet reached)
   the model's step is the interpretation of the translated loop body *)
Lemma gen_sim_track_body : forall t m,
  k_done t = false -> k_failed t = false -> (k_total t <> 0 -> k_value t <> k_total t) ->
  trk_step t m = track_body_gen t m.
Proof.
  intros [tot v d f] m Hd Hf Hv. cbn in Hd, Hf, Hv. subst d f.
  unfold trk_step, track_body_gen, g_sim_track_body. cbn [k_done k_total k_value k_failed].
  destruct m as [k|]; gen_split; cbn; gen_split; cbn [andb orb negb]; try reflexivity; try (exfalso; lia);
    try (exfalso; apply Hv; [assumption | congruence]).
Qed.

(* the precondition is an invariant of the loop: a tracker that is not done has not failed and has not reached a
   positive total *)
Definition trk_running_inv (t : trk) : Prop :=
  k_done t = false -> k_failed t = false /\ (0 < k_total t -> k_value t < k_total t).

Lemma trk_inv_init : forall total, trk_running_inv (trk_init total).
Proof. intros total _. cbn. split; [reflexivity|]. lia. Qed.

Lemma trk_inv_step : forall t m, trk_running_inv t -> trk_running_inv (trk_step t m).
Proof.
  intros [tot v d f] m H. unfold trk_running_inv, trk_step in *. cbn [k_done k_total k_value k_failed] in *.
  destruct d; [exact H|]. destruct (H eq_refl) as [Hf Hv]. subst f.
  destruct m as [k|].
  - destruct (Z.eqb_spec tot 0); cbn [k_done k_total k_value k_failed]; [discriminate|].
    intros Hd. split; [reflexivity|]. intros Hp. lia.
  - destruct (Z.eqb_spec tot 0); cbn [k_done]; discriminate.
Qed.

(* set-up: a zero total makes the tracker a negative assertion (1); the tracker is registered (2) before the loop (3) *)
Lemma gen_sim_track : forall total, g_sim_track total = if total =? 0 then ([1; 2; 3], Fall) else ([2; 3], Fall).
Proof. intros. reflexivity. Qed.

(* ---------------- summary statistics ---------------- *)
(* findMedianAndSplitData (repaired code): no data, even length, odd length *)
Definition median_split_gen (v : list Z) : res (Z * list Z * list Z) :=
  let n := zlen v in
  let idx := n / 2 in
  match g_sim_median_split n with
  | ([], RetU) => Ok (0, [], [])
  | ([1; 2; 3; 4], RetU) =>
      m2 <- (x <- zget v (idx - 1) ;; y <- zget v idx ;; Ok (x + y)) ;;
      a <- zslice v 0 idx ;; b <- zslice v idx n ;; Ok (m2, a, b)
  | ([5; 6; 3; 7], RetU) =>
      x <- zget v idx ;; a <- zslice v 0 idx ;; b <- zslice v (idx + 1) n ;; Ok (2 * x, a, b)
  | _ => Err EIndex
  end.

Lemma gen_sim_median_split : forall v, fms true v = median_split_gen v.
Proof.
  intros. unfold fms, median_split_gen, g_sim_median_split. cbn [andb].
  assert (Hn : 0 <= zlen v) by (unfold zlen; lia).
  rewrite Z.rem_mod_nonneg by lia.
  gen_split; cbn [negb]; try reflexivity; exfalso; lia.
Qed.

Definition maxint : Z := 9223372036854775807.

(* findLowestAndOutliers, one element: counted when below the fence (1), kept when lower than the lowest so far (2) *)
Definition low_step (f : Z) (st : Z * Z) (x : Z) : Z * Z :=
  match g_sim_lowest_body x f (fst st) with
  | ([1; 2], Fall) => (x, snd st + 1)
  | ([1], Fall) => (fst st, snd st + 1)
  | _ => st
  end.

Lemma low_fold : forall f set lo c,
  fold_left (low_step f) set (lo, c) =
  (fold_left Z.min (filter (fun x => x <? f) set) lo, c + zlen (filter (fun x => x <? f) set)).
Proof.
  intros f set. induction set as [|x set IH]; intros lo c; cbn [fold_left filter].
  - unfold zlen. cbn. f_equal. lia.
  - unfold low_step at 2, g_sim_lowest_body. cbn [fst snd].
    destruct (Z.ltb_spec x f).
    + cbn [fold_left]. destruct (Z.ltb_spec x lo); rewrite IH; unfold zlen; cbn [length]; f_equal; try lia.
      * rewrite Z.min_r by lia. reflexivity.
      * rewrite Z.min_l by lia. reflexivity.
    + apply IH.
Qed.

Lemma fold_min_le : forall l a, fold_left Z.min l a <= a.
Proof. induction l as [|x l IH]; intros a; cbn [fold_left]; [lia|]. specialize (IH (Z.min a x)). lia. Qed.

(* whole loop: lowest starts at MaxInt and is reported as -1 when nothing lay below the fence *)
Lemma gen_sim_lowest : forall f4 set,
  Forall (fun x => x < maxint) set ->
  lowest_outliers f4 set =
  let '(lo, c) := fold_left (low_step (Z.quot f4 4)) set (maxint, 0) in ((if lo =? maxint then -1 else lo), c).
Proof.
  intros f4 set Hall. rewrite low_fold. unfold lowest_outliers. cbv zeta.
  set (out := filter (fun x => x <? Z.quot f4 4) set).
  assert (Hout : Forall (fun x => x < maxint) out).
  { unfold out. apply Forall_forall. intros x Hx. apply filter_In in Hx. destruct Hx as [Hx _].
    rewrite Forall_forall in Hall. apply Hall. exact Hx. }
  destruct out as [|x t]; cbn [fold_left].
  - reflexivity.
  - inversion Hout as [|? ? Hx Ht]; subst. rewrite Z.min_r by lia.
    pose proof (fold_min_le t x).
    destruct (Z.eqb_spec (fold_left Z.min t x) maxint); [exfalso; lia|]. reflexivity.
Qed.

(* findHighestAndOutliers, one element and whole loop (highest starts at -1) *)
Definition high_step (f : Z) (st : Z * Z) (x : Z) : Z * Z :=
  match g_sim_highest_body x f (fst st) with
  | ([1; 2], Fall) => (x, snd st + 1)
  | ([1], Fall) => (fst st, snd st + 1)
  | _ => st
  end.

Lemma high_fold : forall f set hi c,
  fold_left (high_step f) set (hi, c) =
  (fold_left Z.max (filter (fun x => f <? x) set) hi, c + zlen (filter (fun x => f <? x) set)).
Proof.
  intros f set. induction set as [|x set IH]; intros hi c; cbn [fold_left filter].
  - unfold zlen. cbn. f_equal. lia.
  - unfold high_step at 2, g_sim_highest_body. cbn [fst snd]. rewrite !Z.gtb_ltb.
    destruct (Z.ltb_spec f x).
    + cbn [fold_left]. destruct (Z.ltb_spec hi x); rewrite IH; unfold zlen; cbn [length]; f_equal; try lia.
      * rewrite Z.max_r by lia. reflexivity.
      * rewrite Z.max_l by lia. reflexivity.
    + apply IH.
Qed.

Lemma gen_sim_highest : forall f4 set,
  highest_outliers f4 set = fold_left (high_step (Z.quot f4 4)) set (-1, 0).
Proof. intros. rewrite high_fold. reflexivity. Qed.

(* ---------------- per-upkeep statistics ---------------- *)
(* the scan for the first block after an eligibility point: the element is taken (parsed, subtracted, the start index
   moved past it: 1-4) and the scan ends as soon as it is later than the eligibility block (Go string >) *)
Lemma gen_sim_stats_scan : forall e x t,
  scan_gt e (x :: t) =
  match g_sim_stats_scan_performed (str_ltb e x), g_sim_stats_scan_checked (str_ltb e x) with
  | ([1; 2; 3; 4], Brk), ([1; 2; 3; 4], Brk) => Some (x, t)
  | ([], Fall), ([], Fall) => scan_gt e t
  | _, _ => None
  end.
Proof. intros. cbn [scan_gt]. unfold g_sim_stats_scan_performed, g_sim_stats_scan_checked. destruct (str_ltb e x); reflexivity. Qed.

(* one eligibility point: the performed list is scanned (1) exactly while some of it is left, and so is the checked
   list (4); a delay is recorded only when the scan found a later block (diff >= 0) *)
Lemma gen_sim_stats_body : forall ps np cs nc pd cd pf cf,
  let acts := fst (g_sim_stats_body ps np cs nc pd cd pf cf) in
  (In 1 acts <-> ps < np) /\ (In 4 acts <-> cs < nc) /\
  ((In 2 acts \/ In 3 acts) <-> (ps < np /\ 0 <= pd)) /\ ((In 5 acts \/ In 6 acts) <-> (cs < nc /\ 0 <= cd)) /\
  snd (g_sim_stats_body ps np cs nc pd cd pf cf) = Fall.
Proof.
  intros. unfold acts, g_sim_stats_body.
  destruct pf, cf; gen_split; cbn;
    repeat split; intros; try lia; try tauto;
    repeat match goal with
           | H : _ \/ _ |- _ => destruct H
           | H : _ /\ _ |- _ => destruct H
           end; try discriminate; try lia; try tauto.
Qed.

(* UpkeepIDs: an identifier is appended on its first occurrence only - the model's first_ids *)
Lemma gen_sim_upkeep_ids : forall x t seen,
  first_ids (x :: t) seen =
  match g_sim_upkeep_ids_body (memN x seen) with
  | ([1; 2], Fall) => x :: first_ids t (x :: seen)
  | _ => first_ids t seen
  end.
Proof. intros. cbn [first_ids]. unfold g_sim_upkeep_ids_body. destruct (memN x seen); reflexivity. Qed.

(* ---------------- DecodeSimulationPlan ---------------- *)
(* one event of the plan (decoding succeeding): appended to the list of its type, a generate event without `expected`
   getting the default first (2); an unknown type tag is an error - the model's decode_step *)
Lemma gen_sim_plan_decode_event : forall p e,
  decode_step (Some p) (Some e) =
  match g_sim_plan_decode_event false (Z.of_N (e_type e)) 1 2 3 false false false (N.eqb (e_expected e) 0) with
  | ([1], Fall) => Some (mkPlan (p_confs p ++ [e]) (p_gens p) (p_logs p))
  | ([2; 3], Fall) => Some (mkPlan (p_confs p) (p_gens p ++ [mkEv (e_type e) 1%N (e_data e)]) (p_logs p))
  | ([3], Fall) => Some (mkPlan (p_confs p) (p_gens p ++ [e]) (p_logs p))
  | ([4], Fall) => Some (mkPlan (p_confs p) (p_gens p) (p_logs p ++ [e]))
  | _ => None
  end.
Proof.
  intros p e. unfold decode_step, g_sim_plan_decode_event, default_expected.
  rewrite (ofN_eqb_1 (e_type e)). change 2 with (Z.of_N 2). change 3 with (Z.of_N 3). rewrite !ofN_eqb.
  destruct (N.eqb (e_type e) 1); [reflexivity|].
  destruct (N.eqb (e_type e) 2).
  - destruct e as [ty ex d]. cbn. destruct (N.eqb_spec ex 0) as [->|]; reflexivity.
  - destruct (N.eqb (e_type e) 3); reflexivity.
Qed.

(* every decoding failure returns an error before anything is appended *)
Lemma gen_sim_plan_decode_errors : forall ty a b c d,
  g_sim_plan_decode_event true ty 1 2 3 a b c d = ([], RetO 1) /\
  g_sim_plan_decode_event false 1 1 2 3 true b c d = ([], RetO 2) /\
  g_sim_plan_decode_event false 2 1 2 3 a true c d = ([], RetO 3) /\
  g_sim_plan_decode_event false 3 1 2 3 a b true d = ([], RetO 4).
Proof. intros. repeat split. Qed.

(* ---------------- the process's exit status ---------------- *)
(* main: after everything has stopped, the process exits with status 1 exactly when AllProgressComplete is false;
   AllProgressComplete waits for checkProgress and returns what it stored: every tracker done and none failed (the
   model's verdict); checkProgress stops the renderer early only when something is registered and nothing is active *)
Lemma gen_sim_exit_status : forall ts,
  fst (g_sim_main_exit (verdict ts)) = (if verdict ts then [] else [1]) /\
  g_sim_all_progress_complete = ([1], RetO 1) /\ g_sim_check_progress = ([1; 2; 3], Fall).
Proof. intros ts. unfold g_sim_main_exit. destruct (verdict ts); repeat split. Qed.

Lemma gen_sim_check_progress_body : forall n a,
  g_sim_check_progress_body false n a = ([2; 3; 1], Fall) /\
  fst (g_sim_check_progress_body true n a) = (if (0 <? n) && (a =? 0) then [1] else []).
Proof.
  intros n a. unfold g_sim_check_progress_body. split; [reflexivity|].
  gen_split; cbn [andb fst]; try reflexivity; exfalso; lia.
Qed.
