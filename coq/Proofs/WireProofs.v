(* Round trip of the wire format model: every parser inverts its printer (digits, numbers,
   byte arrays, JSON strings with both escapers, base64, options, lists, records, the two
   top-level messages), for values of any size. *)
From Verif Require Import Base.Util Model.Types Model.Validate Model.Wire Proofs.TypesProofs Proofs.ValidateProofs.
From Coq Require Import String Ascii Decimal DecimalN DecimalZ DecimalPos DecimalFacts.
From Coq Require Import ZifyBool ZifyNat ZifyN.
Open Scope N_scope.

Ltac Zify.zify_post_hook ::= Z.div_mod_to_equations.

(* ------------------------------------------------------------------ the parser-spec relation *)
Definition follow_ok (s : list N) : bool :=
  match s with [] => true | c :: _ => negb (is_digit c) end.

(* [p] reads back [x] from its printed form [o], whatever follows (as long as what follows
   does not start with a digit, which matters for the greedy number parsers only) *)
Definition pok {A} (p : parser A) (o : list N) (x : A) : Prop :=
  forall rest, follow_ok rest = true -> p (o ++ rest) = Some (x, rest).

Lemma follow_app o rest : follow_ok o = true -> follow_ok rest = true -> follow_ok (o ++ rest) = true.
Proof. destruct o; simpl; auto. Qed.

Lemma strip_app l r : strip l (l ++ r) = Some r.
Proof. induction l as [|c l IH]; simpl; [reflexivity|]. rewrite N.eqb_refl. exact IH. Qed.

Lemma pok_bind {A B} (p : parser A) (f : A -> parser B) o1 o2 a b :
  pok p o1 a -> follow_ok o2 = true -> pok (f a) o2 b -> pok (bind p f) (o1 ++ o2) b.
Proof.
  intros Hp Ho Hf rest Hr. unfold bind. rewrite <- app_assoc.
  rewrite Hp by (apply follow_app; assumption). apply Hf. exact Hr.
Qed.

Lemma pok_bind_lit {B} l (f : unit -> parser B) o2 b :
  pok (f tt) o2 b -> pok (bind (lit l) f) (l ++ o2) b.
Proof.
  intros Hf rest Hr. unfold bind, lit. rewrite <- app_assoc, strip_app. apply Hf. exact Hr.
Qed.

Lemma pok_lit_ret {A} l (x : A) : pok (bind (lit l) (fun _ => ret x)) l x.
Proof. intros rest _. unfold bind, lit, ret. rewrite strip_app. reflexivity. Qed.

(* ------------------------------------------------------------------ digits and numbers *)
Lemma ps_uint_pr u : forall rest, follow_ok rest = true -> ps_uint (pr_uint u ++ rest) = (u, rest).
Proof.
  induction u; intros rest Hr; simpl; try (rewrite (IHu rest Hr); reflexivity).
  destruct rest as [|c t]; [reflexivity|]. simpl in Hr. simpl.
  apply negb_true_iff in Hr. rewrite Hr. reflexivity.
Qed.

Lemma to_uint_nonnil n : N.to_uint n <> Nil.
Proof. destruct n; simpl; [discriminate | apply Unsigned.to_uint_nonnil]. Qed.

Lemma pok_N n : pok ps_N (pr_N n) n.
Proof.
  intros rest Hr. unfold ps_N, pr_N. rewrite ps_uint_pr by exact Hr.
  pose proof (to_uint_nonnil n) as Hn. pose proof (DecimalN.Unsigned.of_to n) as Ho.
  destruct (N.to_uint n); try congruence.
Qed.

Lemma pr_uint_head u : u <> Nil -> exists c t, pr_uint u = c :: t /\ is_digit c = true.
Proof. destruct u; intro H; try congruence; simpl; eexists; eexists; split; reflexivity. Qed.

Lemma pr_N_head n : exists c t, pr_N n = c :: t /\ is_digit c = true.
Proof. apply pr_uint_head, to_uint_nonnil. Qed.

Lemma ps_Z_pos u rest : u <> Nil -> follow_ok rest = true ->
  ps_Z (pr_uint u ++ rest) = Some (Z.of_int (Pos u), rest).
Proof.
  intros Hu Hr. destruct (pr_uint_head u Hu) as [c [t [Hc Hd]]]. unfold ps_Z.
  destruct (pr_uint u ++ rest) as [|c0 t0] eqn:E2; [rewrite Hc in E2; discriminate|].
  assert (c0 = c) by (rewrite Hc in E2; inversion E2; reflexivity). subst c0.
  unfold is_digit in Hd. destruct (N.eqb_spec c 45) as [E45|_]; [subst; discriminate|].
  rewrite <- E2, ps_uint_pr by exact Hr. destruct u; congruence.
Qed.

Lemma pok_Z z : pok ps_Z (pr_Z z) z.
Proof.
  intros rest Hr. unfold pr_Z. pose proof (DecimalZ.of_to z) as Ho.
  destruct (Z.to_int z) as [u|u] eqn:E.
  - assert (Hu : u <> Nil).
    { destruct z; simpl in E; inversion E; subst; [discriminate | apply Unsigned.to_uint_nonnil]. }
    rewrite ps_Z_pos by assumption. rewrite Ho. reflexivity.
  - assert (Hu : u <> Nil).
    { destruct z; simpl in E; inversion E; subst. apply Unsigned.to_uint_nonnil. }
    unfold ps_Z. simpl. rewrite ps_uint_pr by exact Hr.
    destruct u; try congruence; rewrite <- Ho; reflexivity.
Qed.

Lemma pr_Z_head z : exists c t, pr_Z z = c :: t /\ c <> 110 /\ c <> 93.
Proof.
  unfold pr_Z. destruct (Z.to_int z) as [u|u] eqn:E.
  - assert (Hu : u <> Nil).
    { destruct z; simpl in E; inversion E; subst; [discriminate | apply Unsigned.to_uint_nonnil]. }
    destruct (pr_uint_head u Hu) as [c [t [Hc Hd]]]. exists c, t. unfold is_digit in Hd.
    split; [exact Hc|]. lia.
  - eexists; eexists; split; [reflexivity|]. lia.
Qed.

Lemma pok_bool b : pok ps_bool (pr_bool b) b.
Proof. intros rest _. destruct b; reflexivity. Qed.

(* ------------------------------------------------------------------ options *)
Definition head_ne (c0 : N) (o : list N) : Prop := exists c t, o = c :: t /\ c <> c0.

Lemma strip_null_ne c s : c <> 110 -> strip null (c :: s) = None.
Proof.
  intro H. change null with (110 :: s2l "ull"). cbn [strip].
  destruct (N.eqb_spec 110 c); [congruence | reflexivity].
Qed.

Lemma pok_opt {A} (p : parser A) (f : A -> list N) (o : option A) :
  (forall x, o = Some x -> pok p (f x) x /\ head_ne 110 (f x)) ->
  pok (ps_opt p) (pr_opt f o) o.
Proof.
  intros H rest Hr. unfold ps_opt, pr_opt. destruct o as [x|].
  - destruct (H x eq_refl) as [Hp [c [t [Hc Hn]]]].
    assert (Hs : strip null (f x ++ rest) = None).
    { rewrite Hc. change ((c :: t) ++ rest) with (c :: (t ++ rest)). apply strip_null_ne. exact Hn. }
    rewrite Hs, Hp by exact Hr. reflexivity.
  - reflexivity.
Qed.

(* ------------------------------------------------------------------ lists *)
Lemma sep_length {A} (f : A -> list N) (l : list A) :
  (forall x, In x l -> f x <> []) -> (List.length l <= List.length (sep f l))%nat.
Proof.
  induction l as [|x t IH]; intro H; [simpl; lia|].
  assert (Hx : (1 <= List.length (f x))%nat).
  { specialize (H x (or_introl eq_refl)). destruct (f x); [congruence | simpl; lia]. }
  destruct t as [|y t'].
  - simpl. lia.
  - change (sep f (x :: y :: t')) with (f x ++ 44 :: sep f (y :: t')).
    rewrite app_length. specialize (IH (fun z Hz => H z (or_intror Hz))).
    change (List.length (x :: y :: t')) with (S (List.length (y :: t'))).
    change (List.length (44 :: sep f (y :: t'))) with (S (List.length (sep f (y :: t')))). lia.
Qed.

Lemma ps_elems_ok {A} (p : parser A) (f : A -> list N) (l : list A) :
  l <> [] -> (forall x, In x l -> pok p (f x) x) ->
  forall fuel rest, (List.length l <= fuel)%nat ->
    ps_elems p fuel (sep f l ++ 93 :: rest) = Some (l, rest).
Proof.
  induction l as [|x t IH]; intros Hne Hp fuel rest Hf; [congruence|].
  destruct fuel as [|k]; [simpl in Hf; lia|].
  destruct t as [|y t'].
  - simpl. rewrite (Hp x (or_introl eq_refl)) by reflexivity. reflexivity.
  - change (sep f (x :: y :: t')) with (f x ++ 44 :: sep f (y :: t')).
    rewrite <- app_assoc, <- app_comm_cons. cbn [ps_elems].
    rewrite (Hp x (or_introl eq_refl)) by reflexivity.
    change (44 =? 44) with true. cbn iota.
    rewrite IH; [reflexivity | discriminate | intros z Hz; apply Hp; right; exact Hz | simpl in *; lia].
Qed.

Lemma pok_list {A} (p : parser A) (f : A -> list N) (l : list A) :
  (forall x, In x l -> pok p (f x) x /\ head_ne 93 (f x)) ->
  pok (ps_list p) (pr_list f l) l.
Proof.
  intros H rest _. unfold ps_list, pr_list.
  change ((91 :: sep f l ++ [93]) ++ rest) with (91 :: ((sep f l ++ [93]) ++ rest)).
  cbv iota beta. change (91 =? 91) with true. cbv iota.
  rewrite <- app_assoc. change ([93] ++ rest) with (93 :: rest).
  destruct l as [|x t]; [reflexivity|].
  assert (Hs : exists c r, sep f (x :: t) = c :: r /\ c <> 93).
  { destruct (H x (or_introl eq_refl)) as [_ [c [r [Hc Hn]]]].
    destruct t; cbn [sep]; rewrite Hc; cbn [app]; (eexists; eexists; split; [reflexivity | exact Hn]). }
  destruct Hs as [c [r [Hc Hn]]].
  rewrite Hc. rewrite <- app_comm_cons. cbv iota.
  destruct (N.eqb_spec c 93) as [E|_]; [congruence|].
  change (c :: r ++ 93 :: rest) with ((c :: r) ++ 93 :: rest). rewrite <- Hc.
  apply ps_elems_ok; [discriminate | intros z Hz; apply H; exact Hz|].
  rewrite app_length.
  pose proof (sep_length f (x :: t)) as Hl.
  assert (H0 : forall z, In z (x :: t) -> f z <> []).
  { intros z Hz. destruct (H z Hz) as [_ [c' [r' [Hc' _]]]]. rewrite Hc'. discriminate. }
  specialize (Hl H0). lia.
Qed.

Lemma pok_arr l : pok ps_arr (pr_arr l) l.
Proof.
  apply pok_list. intros x _. split; [apply pok_N|].
  destruct (pr_N_head x) as [c [t [Hc Hd]]]. exists c, t. split; [exact Hc|].
  unfold is_digit in Hd. lia.
Qed.

(* ------------------------------------------------------------------ strings *)
Lemma N_lt_cases (k : nat) (P : N -> Prop) :
  Forall P (map N.of_nat (seq 0 k)) -> forall c, c < N.of_nat k -> P c.
Proof.
  intros H c Hc. rewrite Forall_forall in H. apply H. apply in_map_iff.
  exists (N.to_nat c). split; [lia | apply in_seq; lia].
Qed.

Lemma ps_chars_esc_std c : c < 128 ->
  forall tl, ps_chars (esc_std c ++ tl) = consr c (ps_chars tl).
Proof.
  change 128 with (N.of_nat 128). intro Hc. pattern c. revert c Hc. apply (N_lt_cases 128).
  repeat (apply Forall_cons; [intro tl; reflexivity|]). apply Forall_nil.
Qed.

Lemma ps_chars_esc_goccy c : c < 128 ->
  forall tl, ps_chars (esc_goccy c ++ tl) = consr c (ps_chars tl).
Proof.
  change 128 with (N.of_nat 128). intro Hc. pattern c. revert c Hc. apply (N_lt_cases 128).
  repeat (apply Forall_cons; [intro tl; reflexivity|]). apply Forall_nil.
Qed.

Lemma ps_chars_flat esc l :
  (forall c, c < 128 -> forall tl, ps_chars (esc c ++ tl) = consr c (ps_chars tl)) ->
  ascii_ok l -> forall rest, ps_chars (flat_map esc l ++ 34 :: rest) = Some (l, rest).
Proof.
  intros He Hl rest. induction Hl as [|c l Hc Hl IH]; [reflexivity|].
  simpl. rewrite <- app_assoc, He by exact Hc. rewrite IH. reflexivity.
Qed.

Lemma pok_str esc l :
  (forall c, c < 128 -> forall tl, ps_chars (esc c ++ tl) = consr c (ps_chars tl)) ->
  ascii_ok l -> pok ps_str (pr_str esc l) l.
Proof.
  intros He Hl rest _. unfold ps_str, pr_str. simpl. rewrite <- app_assoc. simpl.
  apply ps_chars_flat; assumption.
Qed.

(* ------------------------------------------------------------------ base64 *)
Lemma b64d_c n : n < 64 -> b64d (b64c n) = Some n.
Proof.
  change 64 with (N.of_nat 64). intro Hn. pattern n. revert n Hn. apply (N_lt_cases 64).
  repeat (apply Forall_cons; [reflexivity|]). apply Forall_nil.
Qed.

Lemma b64c_range n : (65 <= b64c n <= 90) \/ (97 <= b64c n <= 122) \/ (48 <= b64c n <= 57) \/ b64c n = 43 \/ b64c n = 47.
Proof.
  unfold b64c.
  destruct (N.ltb_spec n 26); [lia|]. destruct (N.ltb_spec n 52); [lia|].
  destruct (N.ltb_spec n 62); [lia|]. destruct (N.eqb_spec n 62); lia.
Qed.

Lemma b64c_ne n k : k = 34 \/ k = 61 -> b64c n <> k.
Proof. pose proof (b64c_range n). lia. Qed.

Lemma list_ind3 {A} (P : list A -> Prop) :
  P [] -> (forall a, P [a]) -> (forall a b, P [a; b]) ->
  (forall a b c l, P l -> P (a :: b :: c :: l)) -> forall l, P l.
Proof.
  intros H0 H1 H2 H3.
  assert (forall l, P l /\ (forall a, P (a :: l)) /\ (forall a b, P (a :: b :: l))) as H.
  { induction l as [|x l [IH0 [IH1 IH2]]]; [auto|]. repeat split; auto. }
  intro l. apply H.
Qed.

Lemma b64_noquote l : Forall (fun c => c <> 34) (b64enc l).
Proof.
  induction l using list_ind3; simpl; repeat constructor;
    try (apply b64c_ne; left; reflexivity); try discriminate; assumption.
Qed.

Lemma sextets a b c : a < 256 -> b < 256 -> c < 256 ->
  a / 4 < 64 /\ (a mod 4) * 16 + b / 16 < 64 /\ (b mod 16) * 4 + c / 64 < 64 /\ c mod 64 < 64 /\
  (a mod 4) * 16 < 64 /\ (b mod 16) * 4 < 64 /\
  (a / 4) * 4 + ((a mod 4) * 16 + b / 16) / 16 = a /\
  (((a mod 4) * 16 + b / 16) mod 16) * 16 + ((b mod 16) * 4 + c / 64) / 4 = b /\
  (((b mod 16) * 4 + c / 64) mod 4) * 64 + c mod 64 = c /\
  (a / 4) * 4 + ((a mod 4) * 16) / 16 = a /\
  (((a mod 4) * 16 + b / 16) mod 16) * 16 + ((b mod 16) * 4) / 4 = b.
Proof. intros. repeat split; lia. Qed.

Lemma b64dec_enc l : bytes_ok l -> b64dec (b64enc l) = Some l.
Proof.
  induction l using list_ind3; intro H.
  - reflexivity.
  - inversion H as [|? ? Ha _]; subst.
    destruct (sextets a 0 0 Ha) as [S1 [_ [_ [_ [S5 [_ [_ [_ [_ [E1 _]]]]]]]]]]; try lia.
    simpl. rewrite !b64d_c by assumption. simpl. rewrite E1. reflexivity.
  - inversion H as [|? ? Ha H']; subst. inversion H' as [|? ? Hb _]; subst.
    destruct (sextets a b 0 Ha Hb) as [S1 [S2 [_ [_ [_ [S6 [E1 [_ [_ [_ E2]]]]]]]]]]; try lia.
    simpl. rewrite !b64d_c by assumption.
    destruct (N.eqb_spec (b64c ((b mod 16) * 4)) 61) as [E|_]; [exfalso; revert E; apply b64c_ne; auto|].
    simpl. rewrite E1, E2. reflexivity.
  - inversion H as [|? ? Ha H']; subst. inversion H' as [|? ? Hb H'']; subst.
    inversion H'' as [|? ? Hc Hl]; subst.
    destruct (sextets a b c Ha Hb Hc) as [S1 [S2 [S3 [S4 [_ [_ [E1 [E2 [E3 _]]]]]]]]].
    simpl. rewrite !b64d_c by assumption.
    destruct (N.eqb_spec (b64c ((b mod 16) * 4 + c / 64)) 61) as [E|_]; [exfalso; revert E; apply b64c_ne; auto|].
    destruct (N.eqb_spec (b64c (c mod 64)) 61) as [E|_]; [exfalso; revert E; apply b64c_ne; auto|].
    rewrite IHl by assumption. rewrite E1, E2, E3. reflexivity.
Qed.

Lemma span_quote_app b rest :
  Forall (fun c => c <> 34) b -> span_quote (b ++ 34 :: rest) = Some (b, rest).
Proof.
  induction 1 as [|c b Hc Hb IH]; simpl; [reflexivity|].
  destruct (N.eqb_spec c 34); [congruence|]. rewrite IH. reflexivity.
Qed.

Lemma pok_bytes o :
  match o with Some l => bytes_ok l | None => True end -> pok ps_bytes (pr_bytes o) o.
Proof.
  intros H rest _. unfold ps_bytes, pr_bytes. destruct o as [l|]; [|reflexivity].
  simpl. rewrite <- app_assoc. simpl.
  rewrite span_quote_app by apply b64_noquote. rewrite b64dec_enc by exact H. reflexivity.
Qed.

(* ------------------------------------------------------------------ records *)
Ltac lit_step := apply pok_bind_lit.
Ltac fld_step L := eapply pok_bind; [L | reflexivity | cbv beta].

Lemma head_lit (c0 c : N) (t o : list N) : c <> c0 -> head_ne c0 ((c :: t) ++ o).
Proof. intro H. exists c, (t ++ o). split; [reflexivity | exact H]. Qed.

Lemma pok_ext e : pok ps_ext (pr_ext e) e.
Proof.
  destruct e as [tx ix bh bn]. unfold ps_ext, pr_ext. simpl we_txhash. simpl we_index.
  simpl we_blockhash. simpl we_blocknum.
  lit_step. fld_step ltac:(apply pok_arr).
  lit_step. fld_step ltac:(apply pok_N).
  lit_step. fld_step ltac:(apply pok_arr).
  lit_step. fld_step ltac:(apply pok_N).
  apply pok_lit_ret.
Qed.

Lemma pr_ext_head e c0 : c0 <> 123 -> head_ne c0 (pr_ext e).
Proof. intro H. unfold pr_ext. apply head_lit. intro E. apply H. rewrite <- E. reflexivity. Qed.

Lemma pok_trig t : pok ps_trig (pr_trig t) t.
Proof.
  destruct t as [n h e]. unfold ps_trig, pr_trig. simpl wt_num. simpl wt_hash. simpl wt_ext.
  lit_step. fld_step ltac:(apply pok_N).
  lit_step. fld_step ltac:(apply pok_arr).
  lit_step. fld_step ltac:(apply pok_opt; intros x _; split; [apply pok_ext | apply pr_ext_head; discriminate]).
  apply pok_lit_ret.
Qed.

Lemma pok_optZ o : pok (ps_opt ps_Z) (pr_opt pr_Z o) o.
Proof.
  apply pok_opt. intros z _. split; [apply pok_Z|].
  destruct (pr_Z_head z) as [c [t [Hc [Hn _]]]]. exists c, t. auto.
Qed.

Lemma pok_res r : wf_res r -> pok ps_res (pr_res r) r.
Proof.
  destruct r as [st rt el rs u t w g pd fg ln]. intros [Hw Hp]. simpl in Hw, Hp.
  unfold ps_res, pr_res.
  simpl wr_state; simpl wr_retryable; simpl wr_eligible; simpl wr_reason; simpl wr_upk;
    simpl wr_trig; simpl wr_wid; simpl wr_gas; simpl wr_pdata; simpl wr_fgw; simpl wr_ln.
  lit_step. fld_step ltac:(apply pok_N).
  lit_step. fld_step ltac:(apply pok_bool).
  lit_step. fld_step ltac:(apply pok_bool).
  lit_step. fld_step ltac:(apply pok_N).
  lit_step. fld_step ltac:(apply pok_arr).
  lit_step. fld_step ltac:(apply pok_trig).
  lit_step. fld_step ltac:(apply pok_str; [apply ps_chars_esc_std | exact Hw]).
  lit_step. fld_step ltac:(apply pok_N).
  lit_step. fld_step ltac:(apply pok_bytes; exact Hp).
  lit_step. fld_step ltac:(apply pok_optZ).
  lit_step. fld_step ltac:(apply pok_optZ).
  apply pok_lit_ret.
Qed.

Lemma pok_prop p : wf_prop p -> pok ps_prop (pr_prop p) p.
Proof.
  destruct p as [u t w]. unfold wf_prop. simpl. intro Hw.
  unfold ps_prop, pr_prop. simpl wp_upk; simpl wp_trig; simpl wp_wid.
  lit_step. fld_step ltac:(apply pok_arr).
  lit_step. fld_step ltac:(apply pok_trig).
  lit_step. fld_step ltac:(apply pok_str; [apply ps_chars_esc_goccy | exact Hw]).
  apply pok_lit_ret.
Qed.

Lemma pok_bk b : pok ps_bk (pr_bk b) b.
Proof.
  destruct b as [n h]. unfold ps_bk, pr_bk. simpl wb_num; simpl wb_hash.
  lit_step. fld_step ltac:(apply pok_N).
  lit_step. fld_step ltac:(apply pok_arr).
  apply pok_lit_ret.
Qed.

Lemma pr_list_head {A} (f : A -> list N) l c0 : c0 <> 91 -> head_ne c0 (pr_list f l).
Proof. intro H. unfold pr_list. eexists; eexists; split; [reflexivity | congruence]. Qed.

Lemma pok_olist {A} (p : parser A) (f : A -> list N) (P : A -> Prop) (o : option (list A)) :
  (forall x, P x -> pok p (f x) x /\ head_ne 93 (f x)) ->
  wf_olist P o -> pok (ps_opt (ps_list p)) (pr_opt (pr_list f) o) o.
Proof.
  intros H Hw. apply pok_opt. intros l E. subst o. simpl in Hw. rewrite Forall_forall in Hw.
  split; [|apply pr_list_head; discriminate].
  apply pok_list. intros x Hx. apply H, Hw, Hx.
Qed.

Lemma pok_reslist o : wf_olist wf_res o -> pok (ps_opt (ps_list ps_res)) (pr_opt (pr_list pr_res) o) o.
Proof.
  apply pok_olist. intros x Hx. split; [apply pok_res; exact Hx|].
  unfold pr_res. apply head_lit. discriminate.
Qed.

Lemma pok_proplist o : wf_olist wf_prop o -> pok (ps_opt (ps_list ps_prop)) (pr_opt (pr_list pr_prop) o) o.
Proof.
  apply pok_olist. intros x Hx. split; [apply pok_prop; exact Hx|].
  unfold pr_prop. apply head_lit. discriminate.
Qed.

Lemma pok_bklist o : pok (ps_opt (ps_list ps_bk)) (pr_opt (pr_list pr_bk) o) o.
Proof.
  apply (pok_olist ps_bk pr_bk (fun _ => True)).
  - intros x _. split; [apply pok_bk|]. unfold pr_bk. apply head_lit. discriminate.
  - destruct o; simpl; [apply Forall_forall; auto | exact I].
Qed.

Lemma pok_rounds o : wf_olist (wf_olist wf_prop) o ->
  pok (ps_opt (ps_list (ps_opt (ps_list ps_prop)))) (pr_opt (pr_list (pr_opt (pr_list pr_prop))) o) o.
Proof.
  apply pok_olist. intros rd Hrd. split; [apply pok_proplist; exact Hrd|].
  destruct rd; simpl; [apply pr_list_head; discriminate|].
  exists 110, (s2l "ull"). split; [reflexivity | discriminate].
Qed.

Lemma pok_obs o : wf_obs o -> pok ps_obs (enc_obs o) o.
Proof.
  destruct o as [pf pp bh]. intros [H1 H2]. simpl in H1, H2.
  unfold ps_obs, enc_obs. simpl wo_perf; simpl wo_props; simpl wo_hist.
  lit_step. fld_step ltac:(apply pok_reslist; exact H1).
  lit_step. fld_step ltac:(apply pok_proplist; exact H2).
  lit_step. fld_step ltac:(apply pok_bklist).
  apply pok_lit_ret.
Qed.

Lemma pok_outcome o : wf_outcome o -> pok ps_outcome (enc_outcome o) o.
Proof.
  destruct o as [ag sp]. intros [H1 H2]. simpl in H1, H2.
  unfold ps_outcome, enc_outcome. simpl wc_agreed; simpl wc_surfaced.
  lit_step. fld_step ltac:(apply pok_reslist; exact H1).
  lit_step. fld_step ltac:(apply pok_rounds; exact H2).
  apply pok_lit_ret.
Qed.

(* ------------------------------------------------------------------ the round trip *)
Theorem dec_enc_obs o : wf_obs o -> dec_obs (enc_obs o) = Some o.
Proof.
  intro H. unfold dec_obs, whole. rewrite <- (List.app_nil_r (enc_obs o)).
  rewrite (pok_obs o H [] eq_refl). reflexivity.
Qed.

Theorem dec_enc_outcome o : wf_outcome o -> dec_outcome (enc_outcome o) = Some o.
Proof.
  intro H. unfold dec_outcome, whole. rewrite <- (List.app_nil_r (enc_outcome o)).
  rewrite (pok_outcome o H [] eq_refl). reflexivity.
Qed.

(* consequences: the encoding is injective on well-formed values *)
Theorem enc_obs_inj a b : wf_obs a -> wf_obs b -> enc_obs a = enc_obs b -> a = b.
Proof.
  intros Ha Hb E. apply dec_enc_obs in Ha. apply dec_enc_obs in Hb. rewrite E in Ha. congruence.
Qed.

Theorem enc_outcome_inj a b : wf_outcome a -> wf_outcome b -> enc_outcome a = enc_outcome b -> a = b.
Proof.
  intros Ha Hb E. apply dec_enc_outcome in Ha. apply dec_enc_outcome in Hb. rewrite E in Ha. congruence.
Qed.

(* the whole decode: an encoded well-formed value is accepted iff its abstraction meets the
   rules, and then comes back exactly *)
Theorem decode_obs_enc iota utg wg o : wf_obs o ->
  decode_obs iota utg wg (enc_obs o) =
  match obs_err utg wg (abs_obs iota o) with ok => D_ok o | e => D_invalid e end.
Proof. intro H. unfold decode_obs. rewrite dec_enc_obs by exact H. reflexivity. Qed.

Theorem decode_outcome_enc iota utg wg o : wf_outcome o ->
  decode_outcome iota utg wg (enc_outcome o) =
  match outcome_err utg wg (abs_outcome iota o) with ok => D_ok o | e => D_invalid e end.
Proof. intro H. unfold decode_outcome. rewrite dec_enc_outcome by exact H. reflexivity. Qed.

(* ------------------------------------------------------------------ decode is sound for ANY text *)
Theorem decode_obs_sound iota utg wg s w :
  decode_obs iota utg wg s = D_ok w -> dec_obs s = Some w /\ obs_rules utg wg (abs_obs iota w).
Proof.
  unfold decode_obs. destruct (dec_obs s) as [w'|]; [|discriminate].
  destruct (obs_err utg wg (abs_obs iota w')) eqn:E; try discriminate.
  intro H. inversion H; subst. split; [reflexivity|].
  apply valid_obs_iff. unfold valid_obs. rewrite E. reflexivity.
Qed.

Theorem decode_outcome_sound iota utg wg s w :
  decode_outcome iota utg wg s = D_ok w -> dec_outcome s = Some w /\ outcome_rules utg wg (abs_outcome iota w).
Proof.
  unfold decode_outcome. destruct (dec_outcome s) as [w'|]; [|discriminate].
  destruct (outcome_err utg wg (abs_outcome iota w')) eqn:E; try discriminate.
  intro H. inversion H; subst. split; [reflexivity|].
  apply valid_outcome_iff. unfold valid_outcome. rewrite E. reflexivity.
Qed.

(* nil and empty slices are different wire values with the same abstraction *)
Definition norm_res (r : wres) : wres :=
  mkWRes (wr_state r) (wr_retryable r) (wr_eligible r) (wr_reason r) (wr_upk r) (wr_trig r) (wr_wid r)
         (wr_gas r) (Some (olist (wr_pdata r))) (wr_fgw r) (wr_ln r).
Definition norm_obs (o : wobs) : wobs :=
  mkWObs (Some (map norm_res (olist (wo_perf o)))) (Some (olist (wo_props o))) (Some (olist (wo_hist o))).
Definition norm_outcome (o : wout) : wout :=
  mkWOut (Some (map norm_res (olist (wc_agreed o)))) (Some (map (fun rd => Some (olist rd)) (olist (wc_surfaced o)))).

Lemma abs_norm_res iota r : abs_res iota (norm_res r) = abs_res iota r.
Proof. destruct r as [? ? ? ? ? ? ? ? pd ? ?]. destruct pd; reflexivity. Qed.

Theorem abs_norm_obs iota o : abs_obs iota (norm_obs o) = abs_obs iota o.
Proof.
  unfold abs_obs, norm_obs. simpl. rewrite map_map.
  rewrite (map_ext _ _ (abs_norm_res iota)). reflexivity.
Qed.

Theorem abs_norm_outcome iota o : abs_outcome iota (norm_outcome o) = abs_outcome iota o.
Proof.
  unfold abs_outcome, norm_outcome. simpl. rewrite !map_map.
  rewrite (map_ext _ _ (abs_norm_res iota)). reflexivity.
Qed.
