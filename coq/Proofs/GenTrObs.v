(* Observation (hook order), report-level any-of loops, util.Cache: the decisions of the code as /verif/gen translated
   it from /repo's current sources. *)
From Coq Require Import ZArith NArith Bool List Lia ZifyBool ZifyN ZifyNat.
From Verif Require Import Base.GenIR Gen.GeneratedTr Model.Coordinator.
Import ListNotations.
Open Scope Z_scope.

(* ocr3Plugin.Observation: with a previous outcome the three pre-build hooks run first, in the order staging (1),
   metadata (2), proposal queue (3) - an undecodable previous outcome returns before anything else; then the block
   history (4), the log proposals (5), the conditional proposals (6) and LAST the staged results (7), whose byte
   budget is what the others left; an error of a hook returns at once (RetO 1); RetO 2 = observation.Encode(). *)
Lemma gen_observation : forall (prev_nonnil : bool) prev_len (dec_err log_err cond_err staging_err : bool),
  let present := prev_nonnil || negb (prev_len =? 0) in
  let pre := if present then [1; 2; 3] else [] in
  g_observation prev_nonnil prev_len dec_err log_err cond_err staging_err =
  if present && dec_err then ([], RetO 1)
  else if log_err then (pre ++ [4; 5], RetO 1)
  else if cond_err then (pre ++ [4; 5; 6], RetO 1)
  else if staging_err then (pre ++ [4; 5; 6; 7], RetO 1)
  else (pre ++ [4; 5; 6; 7], RetO 2).
Proof.
  intros a n b c d e. unfold g_observation.
  destruct a, b, c, d, e; cbn [orb andb negb]; gen_split; cbn [negb app]; try reflexivity; try (exfalso; lia).
Qed.

(* ShouldAcceptAttestedReport / ShouldTransmitAcceptedReport, loop bodies: every upkeep of the report is handed to
   the coordinator (1), whatever the earlier ones answered, and the report verdict becomes true (2) when one answers
   true: the model's accept_all / existsb *)
Lemma gen_report_anyof : forall v : bool,
  g_accept_report_body v = (if v then ([1; 2], Fall) else ([1], Fall)) /\
  g_transmit_report_body v = (if v then ([1; 2], Fall) else ([1], Fall)).
Proof. intros [|]; split; reflexivity. Qed.

(* util.Cache.Get / ClearExpired: an item is absent when its expiry is set and strictly before now - the model's live *)
Lemma gen_cache_get : forall (found : bool) exp now,
  g_cache_get found exp now = if found && live now exp then ([], RetO 1) else ([], RetO 0).
Proof.
  intros. unfold g_cache_get, live. destruct found; cbn [negb andb]; [|reflexivity].
  gen_split; cbn [negb andb]; try reflexivity; try (exfalso; lia).
Qed.

Lemma gen_cache_gc : forall (found : bool) exp now,
  g_cache_gc_scan_body exp now = (if live now exp then ([], Fall) else ([1], Fall)) /\
  g_cache_gc_sweep_body found exp now = (if found && negb (live now exp) then ([1], Fall) else ([], Fall)).
Proof.
  intros. unfold g_cache_gc_scan_body, g_cache_gc_sweep_body, live.
  destruct found; cbn [andb negb]; split; gen_split; cbn [negb andb]; try reflexivity; try (exfalso; lia).
Qed.
