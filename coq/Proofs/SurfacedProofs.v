(* Surfaced-proposal history: cset (properties C05, C03). *)
From Verif Require Import Base.Util Model.Types Model.Outcome Proofs.TypesProofs Proofs.SortProofs
  Proofs.ProposalsProofs.
From Coq Require Import Sorting.Sorted ZifyBool ZifyN ZifyNat.
Open Scope N_scope.

Section C.
  Variable shuf : N -> N.

  Definition all_wids (rounds : list (list proposal)) : list N := map p_wid (concat rounds).

  (* ---------- generic list facts ---------- *)
  Lemma concat_map_filter {A} (f : A -> bool) (l : list (list A)) :
    concat (map (filter f) l) = filter f (concat l).
  Proof. induction l as [|a t IH]; simpl; [reflexivity|]. rewrite filter_app, IH. reflexivity. Qed.

  Lemma NoDup_map_filter {A B} (g : A -> B) (f : A -> bool) (l : list A) :
    NoDup (map g l) -> NoDup (map g (filter f l)).
  Proof.
    induction l as [|a t IH]; simpl; intro N; [constructor|]. inversion N as [|? ? Nin Nt]; subst.
    destruct (f a); simpl; [|apply IH, Nt]. constructor; [|apply IH, Nt].
    intro H. apply Nin. apply in_map_iff in H as [x [Hx Hi]]. apply filter_In in Hi as [Hi _].
    rewrite <- Hx. apply in_map, Hi.
  Qed.

  Lemma concat_firstn_skipn {A} n (l : list (list A)) :
    concat l = concat (firstn n l) ++ concat (skipn n l).
  Proof. rewrite <- concat_app, firstn_skipn. reflexivity. Qed.

  Lemma NoDup_app_l {A} (a b : list A) : NoDup (a ++ b) -> NoDup a.
  Proof.
    induction a as [|x a IH]; simpl; intro N; [constructor|]. inversion N; subst.
    constructor; [|apply IH; assumption]. intro H. match goal with H0 : ~ In _ _ |- _ => apply H0 end.
    apply in_or_app. left. exact H.
  Qed.

  Lemma NoDup_app_intro {A} (a b : list A) :
    NoDup a -> NoDup b -> (forall x, In x a -> ~ In x b) -> NoDup (a ++ b).
  Proof.
    induction a as [|x a IH]; simpl; intros Na Nb D; [exact Nb|]. inversion Na; subst.
    constructor.
    - intro H. apply in_app_or in H as [H|H]; [auto | apply (D x); [left; reflexivity | exact H]].
    - apply IH; auto.
  Qed.

  Lemma firstn_In' {A} n (l : list A) x : In x (firstn n l) -> In x l.
  Proof. revert n; induction l as [|a t IH]; intros [|n] H; simpl in *; try tauto. destruct H; [left|right]; eauto. Qed.

  Lemma NoDup_map_firstn' {A B} (f : A -> B) n (l : list A) : NoDup (map f l) -> NoDup (map f (firstn n l)).
  Proof.
    revert n; induction l as [|a t IH]; intros [|n] N; simpl; try constructor.
    - inversion N; subst. intro H. apply in_map_iff in H as [x [Hx Hi]]. apply firstn_In' in Hi.
      match goal with H : ~ In _ _ |- _ => apply H end. rewrite <- Hx. apply in_map. exact Hi.
    - inversion N; subst. apply IH. assumption.
  Qed.

  Lemma filter_len_le {A} (f : A -> bool) (l : list A) : (length (filter f l) <= length l)%nat.
  Proof. induction l as [|a t IH]; simpl; [lia|]. destruct (f a); simpl; lia. Qed.

  Lemma nth_error_firstn_lt {A} (l : list A) : forall n i, (i < n)%nat -> nth_error (firstn n l) i = nth_error l i.
  Proof.
    induction l as [|a t IH]; intros [|n] [|i] H; simpl; try reflexivity; try lia.
    apply IH. lia.
  Qed.

  (* ---------- carry ---------- *)
  Lemma carry_length agreed prev : length (carry agreed prev) = length prev.
  Proof. unfold carry. apply map_length. Qed.

  Lemma carry_wids agreed prev :
    all_wids (carry agreed prev) = map p_wid (filter (fun p => negb (perf_exists agreed p)) (concat prev)).
  Proof. unfold all_wids, carry. rewrite concat_map_filter. reflexivity. Qed.

  Lemma carry_nodup agreed prev : NoDup (all_wids prev) -> NoDup (all_wids (carry agreed prev)).
  Proof. intro N. rewrite carry_wids. apply NoDup_map_filter. exact N. Qed.

  Lemma perf_exists_iff agreed p : perf_exists agreed p = true <-> In (p_wid p) (map r_wid agreed).
  Proof.
    unfold perf_exists. rewrite existsb_exists. split.
    - intros [r [Hr He]]. apply N.eqb_eq in He. rewrite He. apply in_map, Hr.
    - intro H. apply in_map_iff in H as [r [Hw Hr]]. exists r. split; [exact Hr | apply N.eqb_eq; congruence].
  Qed.

  Lemma prop_exists_iff rounds p : prop_exists rounds p = true <-> In (p_wid p) (all_wids rounds).
  Proof.
    unfold prop_exists, all_wids. rewrite existsb_exists. split.
    - intros [rd [Hrd He]]. apply existsb_exists in He as [q [Hq Hw]]. apply N.eqb_eq in Hw.
      rewrite <- Hw. apply in_map. apply in_concat. exists rd. split; assumption.
    - intro H. apply in_map_iff in H as [q [Hw Hq]]. apply in_concat in Hq as [rd [Hrd Hq]].
      exists rd. split; [exact Hrd|]. apply existsb_exists. exists q. split; [exact Hq | apply N.eqb_eq; exact Hw].
  Qed.

  Lemma carry_disjoint agreed prev w : In w (all_wids (carry agreed prev)) -> ~ In w (map r_wid agreed).
  Proof.
    rewrite carry_wids. intro H. apply in_map_iff in H as [p [Hw Hp]]. apply filter_In in Hp as [_ Hp].
    rewrite negb_true_iff in Hp. intro Hin. rewrite <- Hw in Hin. apply perf_exists_iff in Hin. congruence.
  Qed.

  Lemma carry_round_length agreed prev n :
    Forall (fun rd => (length rd <= n)%nat) prev -> Forall (fun rd => (length rd <= n)%nat) (carry agreed prev).
  Proof.
    unfold carry. induction prev as [|rd t IH]; simpl; intro F; constructor; inversion F; subst.
    - pose proof (filter_len_le (fun p => negb (perf_exists agreed p)) rd). lia.
    - apply IH. assumption.
  Qed.

  Lemma proposal_eq_dec (a b : proposal) : {a = b} + {a <> b}.
  Proof. repeat decide equality; apply N.eq_dec. Defined.

  (* ---------- new_props ---------- *)
  Lemma restamp_wid qb p : p_wid (restamp qb p) = p_wid p.
  Proof. reflexivity. Qed.

  Lemma new_props_spec qb agreed hist : forall l added q,
    In q (new_props qb agreed hist added l) ->
    exists p, In p l /\ q = restamp qb p /\ ~ In (p_wid p) (all_wids hist)
              /\ ~ In (p_wid p) (map r_wid agreed) /\ ~ In (p_wid p) added.
  Proof.
    induction l as [|p t IH]; intros added q H; simpl in H; [destruct H|].
    destruct (prop_exists hist p || perf_exists agreed p || memN (p_wid p) added) eqn:E.
    - destruct (IH _ _ H) as [p' [Hi Hr]]. exists p'. split; [right; exact Hi | exact Hr].
    - apply orb_false_iff in E as [E E3]. apply orb_false_iff in E as [E1 E2].
      destruct H as [<-|H].
      + exists p. split; [left; reflexivity|]. split; [reflexivity|]. repeat split.
        * intro Hx. apply prop_exists_iff in Hx. congruence.
        * intro Hx. apply perf_exists_iff in Hx. congruence.
        * apply memN_false_In. exact E3.
      + destruct (IH _ _ H) as [p' [Hi [Hq [H1 [H2 H3]]]]]. exists p'. split; [right; exact Hi|].
        split; [exact Hq|]. repeat split; auto. intro Hx. apply H3. right. exact Hx.
  Qed.

  Lemma new_props_nodup qb agreed hist : forall l added,
    NoDup (map p_wid (new_props qb agreed hist added l)).
  Proof.
    induction l as [|p t IH]; intro added; simpl; [constructor|].
    destruct (prop_exists hist p || perf_exists agreed p || memN (p_wid p) added); [apply IH|].
    simpl. constructor; [|apply IH]. intro H. apply in_map_iff in H as [q [Hw Hq]].
    apply new_props_spec in Hq as [p' [_ [Hq [_ [_ Hn]]]]]. apply Hn. left. subst q.
    rewrite restamp_wid in Hw. congruence.
  Qed.

  (* every proposal that is new, not yet in history, not agreed, is represented in new_props *)
  Lemma new_props_complete qb agreed hist : forall l added p,
    In p l -> ~ In (p_wid p) (all_wids hist) -> ~ In (p_wid p) (map r_wid agreed) ->
    In (p_wid p) added \/ In (p_wid p) (map p_wid (new_props qb agreed hist added l)).
  Proof.
    induction l as [|p0 t IH]; intros added p Hin H1 H2; [destruct Hin|]. simpl.
    destruct (prop_exists hist p0 || perf_exists agreed p0 || memN (p_wid p0) added) eqn:E.
    - destruct Hin as [->|Hin]; [|apply IH; assumption].
      apply orb_true_iff in E as [E|E]; [apply orb_true_iff in E as [E|E]|].
      + exfalso. apply H1. apply prop_exists_iff. exact E.
      + exfalso. apply H2. apply perf_exists_iff. exact E.
      + left. apply memN_In. exact E.
    - destruct Hin as [->|Hin].
      + right. simpl. left. reflexivity.
      + destruct (IH (p_wid p0 :: added) p Hin H1 H2) as [[H|H]|H].
        * right. simpl. left. exact H.
        * left. exact H.
        * right. simpl. right. exact H.
  Qed.

  (* ---------- cset ---------- *)
  Section Set_.
    Variable pi_b : bvotes -> bvotes.
    Hypothesis pi_perm : forall v, Permutation (pi_b v) v.
    Variables (thr histLimit perRound : nat).
    Hypothesis hist_pos : (1 <= histLimit)%nat.
    Variables (bv : bvotes) (allnew : list proposal) (agreed : list result) (prev : list (list proposal)).

    Let res := cset shuf true pi_b thr histLimit perRound bv allnew agreed prev.
    Let lq := latest_quorum_block true pi_b thr bv.
    Let surf0 := carry agreed prev.
    Let surf1 := if Nat.leb histLimit (length surf0) then firstn (histLimit - 1) surf0 else surf0.
    Let latest := firstn perRound (sort_by (fun p => shuf (p_wid p)) (new_props (fst lq) agreed surf1 [] allnew)).

    Lemma cset_cases :
      (snd lq = false /\ res = surf0) \/ (snd lq = true /\ res = latest :: surf1).
    Proof.
      unfold res, latest, surf1, surf0, lq, cset.
      destruct (latest_quorum_block true pi_b thr bv) as [qb [|]]; simpl; [right | left]; split; reflexivity.
    Qed.

    (* C05_no_quorum *)
    Theorem cset_no_quorum : snd lq = false -> res = carry agreed prev.
    Proof. intro H. destruct cset_cases as [[_ E]|[E _]]; [exact E | congruence]. Qed.

    Lemma latest_In q : In q latest ->
      exists p, In p allnew /\ q = restamp (fst lq) p /\ ~ In (p_wid p) (all_wids surf1)
                /\ ~ In (p_wid p) (map r_wid agreed).
    Proof.
      unfold latest. intro H. apply firstn_In' in H. apply sort_by_In in H.
      apply new_props_spec in H as [p [H1 [H2 [H3 [H4 _]]]]]. exists p. auto.
    Qed.

    (* C05_block: every proposal of a new round carries the selected block *)
    Theorem cset_block q : snd lq = true -> In q latest ->
      t_num (p_trig q) = bk_num (fst lq) /\ t_hash (p_trig q) = bk_hash (fst lq).
    Proof. intros _ H. apply latest_In in H as [p [_ [-> _]]]. split; reflexivity. Qed.

    Lemma surf1_sub w : In w (all_wids surf1) -> In w (all_wids surf0).
    Proof.
      unfold surf1. destruct (Nat.leb histLimit (length surf0)); [|auto].
      unfold all_wids. intro H. rewrite (concat_firstn_skipn (histLimit - 1) surf0), map_app.
      apply in_or_app. left. exact H.
    Qed.

    Lemma surf1_nodup : NoDup (all_wids prev) -> NoDup (all_wids surf1).
    Proof.
      intro N. apply (carry_nodup agreed) in N. fold surf0 in N. unfold surf1.
      destruct (Nat.leb histLimit (length surf0)); [|exact N].
      unfold all_wids in *. rewrite (concat_firstn_skipn (histLimit - 1) surf0), map_app in N.
      apply NoDup_app_l in N. exact N.
    Qed.

    Lemma latest_nodup : NoDup (map p_wid latest).
    Proof.
      unfold latest. apply NoDup_map_firstn'.
      eapply Permutation_NoDup; [apply Permutation_map, Permutation_sym, sort_by_perm | apply new_props_nodup].
    Qed.

    (* C05_once: no work id twice across the retained history, none shared with the agreed performables *)
    Theorem cset_once : NoDup (all_wids prev) ->
      NoDup (all_wids res) /\ forall w, In w (all_wids res) -> ~ In w (map r_wid agreed).
    Proof.
      intro N. destruct cset_cases as [[_ ->]|[_ ->]].
      - split; [apply carry_nodup, N | apply carry_disjoint].
      - split.
        + unfold all_wids. simpl. rewrite map_app. apply NoDup_app_intro.
          * apply latest_nodup.
          * apply surf1_nodup, N.
          * intros w Hw. apply in_map_iff in Hw as [q [Hq Hi]]. apply latest_In in Hi as [p [_ [-> [H3 _]]]].
            rewrite restamp_wid in Hq. subst w. exact H3.
        + intros w Hw. unfold all_wids in Hw. simpl in Hw. rewrite map_app in Hw.
          apply in_app_or in Hw as [Hw|Hw].
          * apply in_map_iff in Hw as [q [Hq Hi]]. apply latest_In in Hi as [p [_ [-> [_ H4]]]].
            rewrite restamp_wid in Hq. subst w. exact H4.
          * apply (carry_disjoint agreed prev). apply surf1_sub. exact Hw.
    Qed.

    Lemma surf1_length : (length surf1 <= histLimit - 1)%nat \/ (surf1 = surf0 /\ (length surf0 < histLimit)%nat).
    Proof.
      unfold surf1. destruct (Nat.leb histLimit (length surf0)) eqn:E.
      - left. rewrite firstn_length. lia.
      - right. split; [reflexivity | lia].
    Qed.

    (* C05_history: at most histLimit rounds; a new round is prepended and the oldest dropped;
       at most perRound new proposals *)
    Theorem cset_history : (length prev <= histLimit)%nat ->
      (length res <= histLimit)%nat /\
      (snd lq = true -> res = latest :: surf1 /\ (length latest <= perRound)%nat
                        /\ surf1 = (if Nat.leb histLimit (length prev) then firstn (histLimit - 1) (carry agreed prev) else carry agreed prev)).
    Proof.
      intro L. split.
      - destruct cset_cases as [[_ ->]|[_ ->]].
        + unfold surf0. rewrite carry_length. exact L.
        + simpl. destruct surf1_length as [H|[_ H]]; [lia|]. destruct surf1_length as [H'|[E _]]; [lia|].
          rewrite E. lia.
      - intro Hq. destruct cset_cases as [[E _]|[_ E]]; [congruence|]. split; [exact E|]. split.
        + unfold latest. apply firstn_le_length.
        + unfold surf1, surf0. rewrite carry_length. reflexivity.
    Qed.

    Theorem cset_round_sizes :
      Forall (fun rd => (length rd <= perRound)%nat) prev -> Forall (fun rd => (length rd <= perRound)%nat) res.
    Proof.
      intro F. apply (carry_round_length agreed) in F. fold surf0 in F.
      assert (F1 : Forall (fun rd => (length rd <= perRound)%nat) surf1).
      { unfold surf1. destruct (Nat.leb histLimit (length surf0)); [|exact F].
        rewrite Forall_forall in *. intros rd H. apply F. eapply firstn_In'. exact H. }
      destruct cset_cases as [[_ ->]|[_ ->]]; [exact F|]. constructor; [|exact F1].
      unfold latest. apply firstn_le_length.
    Qed.

    (* C05_persist: a proposal of round i of the previous outcome survives (one position further
       down when a new round is added) unless it was performed or its round is the one dropped *)
    Theorem cset_persist i rd p :
      nth_error prev i = Some rd -> In p rd -> perf_exists agreed p = false ->
      (snd lq = false -> exists rd', nth_error res i = Some rd' /\ In p rd') /\
      (snd lq = true -> (S i < histLimit)%nat \/ (length prev < histLimit)%nat ->
         exists rd', nth_error res (S i) = Some rd' /\ In p rd').
    Proof.
      intros Hn Hp Hx.
      assert (H0 : exists rd', nth_error surf0 i = Some rd' /\ In p rd').
      { unfold surf0, carry. exists (filter (fun p0 => negb (perf_exists agreed p0)) rd). split.
        - rewrite nth_error_map, Hn. reflexivity.
        - apply filter_In. split; [exact Hp | rewrite Hx; reflexivity]. }
      split.
      - intro Hq. destruct cset_cases as [[_ ->]|[E _]]; [exact H0 | congruence].
      - intros Hq Hi. destruct cset_cases as [[E _]|[_ ->]]; [congruence|]. simpl.
        destruct H0 as [rd' [H0 H1]]. exists rd'. split; [|exact H1].
        unfold surf1. destruct (Nat.leb histLimit (length surf0)) eqn:E.
        + unfold surf0 in E. rewrite carry_length in E.
          destruct Hi as [Hi|Hi]; [|lia].
          rewrite nth_error_firstn_lt by lia. exact H0.
        + exact H0.
    Qed.

    (* Liveness of surfacing (C09): with a quorum block, a unit of work some valid observation proposes,
       which is neither in the carried history nor agreed in this round, is in the new round stamped
       with the quorum block - or the round is full and everything in it sorts at or before it *)
    Theorem surfaced_live p : snd lq = true -> In p allnew ->
      ~ In (p_wid p) (all_wids prev) -> ~ In (p_wid p) (map r_wid agreed) ->
      exists q, p_wid q = p_wid p /\ t_num (p_trig q) = bk_num (fst lq) /\ t_hash (p_trig q) = bk_hash (fst lq) /\
        (In q (hd [] res) \/
         (length (hd [] res) = perRound /\ forall y, In y (hd [] res) -> shuf (p_wid y) <= shuf (p_wid q))).
    Proof.
      intros Hq Hin Hh Ha. destruct cset_cases as [[E _]|[_ ->]]; [congruence|]. simpl.
      assert (H1 : ~ In (p_wid p) (all_wids surf1)).
      { intro H. apply surf1_sub in H. unfold surf0 in H. rewrite carry_wids in H.
        apply in_map_iff in H as [p1 [Hw Hp1]]. apply filter_In in Hp1 as [Hp1 _]. apply Hh.
        unfold all_wids. rewrite <- Hw. apply in_map. exact Hp1. }
      destruct (new_props_complete (fst lq) agreed surf1 allnew [] p Hin H1 Ha) as [[]|H].
      apply in_map_iff in H as [q [Hw Hi]]. exists q. split; [exact Hw|].
      assert (Hs := Hi). apply new_props_spec in Hs as [p0 [_ [-> _]]]. split; [reflexivity|]. split; [reflexivity|].
      set (key := fun p1 : proposal => shuf (p_wid p1)).
      assert (Hi' : In (restamp (fst lq) p0) (sort_by key (new_props (fst lq) agreed surf1 [] allnew)))
        by (apply sort_by_In; exact Hi).
      destruct (in_dec proposal_eq_dec (restamp (fst lq) p0) latest) as [Hl|Hl]; [left; exact Hl|]. right.
      destruct (firstn_sorted_cut key perRound _ _ (sort_by_sorted key _) Hi' Hl) as [Hlen Hy].
      split; [|exact Hy]. unfold latest. rewrite firstn_length. fold key. lia.
    Qed.
  End Set_.
End C.
