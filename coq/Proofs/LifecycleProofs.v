(* C18 - proofs about Model/Lifecycle.v.
   Technique: for each of the six concrete configurations (code before / after the repairs x three
   service kinds) the set of reachable states is finite.  [closed_reach] (induction over the step
   relation) shows that a list that contains init and is closed under step contains every reachable
   state; the closure of the computed lists and the state predicates are then decided by vm_compute
   and lifted with forallb_forall.  Every theorem therefore holds for ALL schedules of any length. *)
From Verif Require Import Base.Util Model.Lifecycle.
From Coq Require Import Arith PeanoNat Lia.

(* ------------------------------------------------------------------ boolean equalities *)
Lemma msg_eqb_true a b : msg_eqb a b = true -> a = b.
Proof. destruct a, b; simpl; intro H; try reflexivity; discriminate. Qed.
Lemma tres_eqb_true a b : tres_eqb a b = true -> a = b.
Proof. destruct a, b; simpl; intro H; try reflexivity; discriminate. Qed.
Lemma cres_eqb_true a b : cres_eqb a b = true -> a = b.
Proof. destruct a, b; simpl; intro H; try reflexivity; discriminate. Qed.
Lemma tpc_eqb_true a b : tpc_eqb a b = true -> a = b.
Proof. destruct a, b; simpl; intro H; try reflexivity; try discriminate. apply tres_eqb_true in H; congruence. Qed.
Lemma gpc_eqb_true a b : gpc_eqb a b = true -> a = b.
Proof. destruct a, b; simpl; intro H; try reflexivity; try discriminate. apply msg_eqb_true in H; congruence. Qed.
Lemma cpc_eqb_true a b : cpc_eqb a b = true -> a = b.
Proof. destruct a, b; simpl; intro H; try reflexivity; try discriminate; apply cres_eqb_true in H; congruence. Qed.
Lemma omsg_eqb_true a b : omsg_eqb a b = true -> a = b.
Proof. destruct a, b; simpl; intro H; try reflexivity; try discriminate. apply msg_eqb_true in H; congruence. Qed.

Lemma land_true (a b : bool) : (if a then b else false) = true -> a = true /\ b = true.
Proof. destruct a; intro H; [split; [reflexivity | exact H] | discriminate]. Qed.

Lemma state_eqb_true a b : state_eqb a b = true -> a = b.
Proof.
  unfold state_eqb. intro H.
  repeat match type of H with (if _ then _ else false) = true => apply land_true in H; destruct H as [H ?] end.
  destruct a, b; simpl in *.
  repeat match goal with
  | h : tpc_eqb _ _ = true |- _ => apply tpc_eqb_true in h
  | h : gpc_eqb _ _ = true |- _ => apply gpc_eqb_true in h
  | h : cpc_eqb _ _ = true |- _ => apply cpc_eqb_true in h
  | h : omsg_eqb _ _ = true |- _ => apply omsg_eqb_true in h
  | h : Bool.eqb _ _ = true |- _ => apply Bool.eqb_prop in h
  | h : Nat.eqb _ _ = true |- _ => apply Nat.eqb_eq in h
  end.
  subst. reflexivity.
Qed.

Lemma mem_state_In x l : mem_state x l = true -> In x l.
Proof.
  unfold mem_state. rewrite existsb_exists. intros [y [Hy He]].
  apply state_eqb_true in He. subst. exact Hy.
Qed.

Lemma all_labels_complete : forall l, In l all_labels.
Proof. destruct l; simpl; tauto. Qed.

(* ------------------------------------------------------------------ the sweep principle *)
Lemma closed_reach cf L : closedb cf L = true -> forall s, reachable cf s -> In s L.
Proof.
  unfold closedb. rewrite andb_true_iff. intros [Hi Hc] s Hr.
  induction Hr as [|s l s' Hr IH Hs].
  - apply mem_state_In. exact Hi.
  - rewrite forallb_forall in Hc. specialize (Hc s IH).
    rewrite forallb_forall in Hc. specialize (Hc l (all_labels_complete l)).
    rewrite Hs in Hc. apply mem_state_In. exact Hc.
Qed.

Lemma sweep cf L (P : state -> bool) :
  closedb cf L = true -> forallb P L = true -> forall s, reachable cf s -> P s = true.
Proof.
  intros Hc HP s Hr. rewrite forallb_forall in HP. apply HP. eapply closed_reach; eassumption.
Qed.

Lemma run_reachable cf ls : forall s s', reachable cf s -> run cf s ls = Some s' -> reachable cf s'.
Proof.
  induction ls as [|l r IH]; simpl; intros s s' Hr H.
  - inversion H; subst; exact Hr.
  - destruct (step cf s l) eqn:E; [|discriminate]. eapply IH; [|exact H]. eapply reach_step; eassumption.
Qed.

(* ------------------------------------------------------------------ the six reachable sets *)
Definition RS_old_once := Eval vm_compute in reach_set (cfg_old KOnce).
Definition RS_old_fresh := Eval vm_compute in reach_set (cfg_old KFresh).
Definition RS_old_sticky := Eval vm_compute in reach_set (cfg_old KSticky).
Definition RS_new_once := Eval vm_compute in reach_set (cfg_new KOnce).
Definition RS_new_fresh := Eval vm_compute in reach_set (cfg_new KFresh).
Definition RS_new_sticky := Eval vm_compute in reach_set (cfg_new KSticky).

Lemma closed_old_once : closedb (cfg_old KOnce) RS_old_once = true. Proof. vm_compute. reflexivity. Qed.
Lemma closed_old_fresh : closedb (cfg_old KFresh) RS_old_fresh = true. Proof. vm_compute. reflexivity. Qed.
Lemma closed_old_sticky : closedb (cfg_old KSticky) RS_old_sticky = true. Proof. vm_compute. reflexivity. Qed.
Lemma closed_new_once : closedb (cfg_new KOnce) RS_new_once = true. Proof. vm_compute. reflexivity. Qed.
Lemma closed_new_fresh : closedb (cfg_new KFresh) RS_new_fresh = true. Proof. vm_compute. reflexivity. Qed.
Lemma closed_new_sticky : closedb (cfg_new KSticky) RS_new_sticky = true. Proof. vm_compute. reflexivity. Qed.

(* the configurations the theorems speak about: the code before all three repairs, or after *)
Definition known_cfg (cf : config) : Prop := cf = cfg_old (knd cf) \/ cf = cfg_new (knd cf).

Lemma repaired_known cf : repaired cf -> known_cfg cf.
Proof. destruct cf as [a b c k]. unfold repaired; simpl. intros (-> & -> & ->). right. reflexivity. Qed.
Lemma repaired_eq cf : repaired cf -> cf = cfg_new (knd cf).
Proof. destruct cf as [a b c k]. unfold repaired; simpl. intros (-> & -> & ->). reflexivity. Qed.

(* a predicate (possibly depending on the configuration) checked on all six sets holds on every reachable state *)
Definition six (P : config -> state -> bool) : bool :=
  forallb (P (cfg_old KOnce)) RS_old_once && forallb (P (cfg_old KFresh)) RS_old_fresh &&
  forallb (P (cfg_old KSticky)) RS_old_sticky && forallb (P (cfg_new KOnce)) RS_new_once &&
  forallb (P (cfg_new KFresh)) RS_new_fresh && forallb (P (cfg_new KSticky)) RS_new_sticky.
Definition three (P : config -> state -> bool) : bool :=
  forallb (P (cfg_new KOnce)) RS_new_once && forallb (P (cfg_new KFresh)) RS_new_fresh &&
  forallb (P (cfg_new KSticky)) RS_new_sticky.

Lemma six_sound P : six P = true -> forall cf s, known_cfg cf -> reachable cf s -> P cf s = true.
Proof.
  unfold six. repeat rewrite andb_true_iff. intros [[[[[H1 H2] H3] H4] H5] H6] cf s [E|E] Hr;
    rewrite E in *; destruct (knd cf).
  - eapply sweep; [exact closed_old_once | exact H1 | exact Hr].
  - eapply sweep; [exact closed_old_fresh | exact H2 | exact Hr].
  - eapply sweep; [exact closed_old_sticky | exact H3 | exact Hr].
  - eapply sweep; [exact closed_new_once | exact H4 | exact Hr].
  - eapply sweep; [exact closed_new_fresh | exact H5 | exact Hr].
  - eapply sweep; [exact closed_new_sticky | exact H6 | exact Hr].
Qed.

Lemma three_sound P : three P = true -> forall cf s, repaired cf -> reachable cf s -> P cf s = true.
Proof.
  unfold three. repeat rewrite andb_true_iff. intros [[H4 H5] H6] cf s Hrep Hr.
  rewrite (repaired_eq cf Hrep) in *. destruct (knd cf).
  - eapply sweep; [exact closed_new_once | exact H4 | exact Hr].
  - eapply sweep; [exact closed_new_fresh | exact H5 | exact Hr].
  - eapply sweep; [exact closed_new_sticky | exact H6 | exact Hr].
Qed.

(* helper: a forallb over all labels of a match on step *)
Lemma all_steps (cf : config) (s : state) (Q : label -> state -> bool) :
  forallb (fun l => match step cf s l with Some s' => Q l s' | None => true end) all_labels = true ->
  forall l s', step cf s l = Some s' -> Q l s' = true.
Proof.
  intros H l s' Hs. rewrite forallb_forall in H. specialize (H l (all_labels_complete l)).
  rewrite Hs in H. exact H.
Qed.

(* ------------------------------------------------------------------ Close does not deadlock *)
Definition midcall (s : state) : bool := match s_c s with CIdle | CRet _ => false | _ => true end.
Definition P1b (cf : config) (s : state) : bool :=
  negb (midcall s) ||
  existsb (fun l => match step cf s l with Some s' => negb (is_env l) && (cmu s' <? cmu s) | None => false end) all_labels.
Definition P2b (cf : config) (s : state) : bool :=
  forallb (fun l => match step cf s l with Some s' => cmu s' <=? cmu s | None => true end) all_labels.

Lemma P1_six : six P1b = true. Proof. vm_compute. reflexivity. Qed.
Lemma P2_six : six P2b = true. Proof. vm_compute. reflexivity. Qed.

(* while Close is in progress some transition of the code (not of the environment) that brings Close
   nearer to its return is enabled ... *)
Lemma close_progress cf s :
  known_cfg cf -> reachable cf s -> midcall s = true ->
  exists l s', is_env l = false /\ step cf s l = Some s' /\ cmu s' < cmu s.
Proof.
  intros Hk Hr Hm. pose proof (six_sound _ P1_six cf s Hk Hr) as H. unfold P1b in H.
  rewrite Hm in H. cbn [negb orb andb] in H. rewrite existsb_exists in H. destruct H as [l [_ H]].
  destruct (step cf s l) as [s'|] eqn:E; [|discriminate].
  apply andb_true_iff in H as [H1 H2]. exists l, s'. split; [|split].
  - destruct (is_env l); [discriminate | reflexivity].
  - exact E.
  - apply Nat.ltb_lt. exact H2.
Qed.

(* ... and no transition whatsoever takes it further away *)
Lemma close_monotone cf s l s' :
  known_cfg cf -> reachable cf s -> step cf s l = Some s' -> cmu s' <= cmu s.
Proof.
  intros Hk Hr Hs. pose proof (six_sound _ P2_six cf s Hk Hr) as H. unfold P2b in H.
  apply Nat.leb_le. exact (all_steps cf s (fun _ s' => cmu s' <=? cmu s) H l s' Hs).
Qed.

Lemma cmu_zero_ret s : cmu s = 0 -> is_cret (s_c s) = true.
Proof. unfold cmu. destruct (s_c s); simpl; try discriminate; try reflexivity. destruct (g_active (s_g s)); discriminate. Qed.

(* ------------------------------------------------------------------ Close stops (repaired code) *)
Definition close_hyp (cf : config) (s : state) : bool :=
  is_cret (s_c s) && (is_sticky (knd cf) || negb (h_early s)).
Definition Q1b (cf : config) (s : state) : bool :=
  negb (close_hyp cf s) ||
  forallb (fun l => match step cf s l with Some s' => qmu cf s' <? qmu cf s | None => true end) all_labels.
Definition Q2b (cf : config) (s : state) : bool := negb (close_hyp cf s && stable cf s) || quiescent s.
Definition Q3b (cf : config) (s : state) : bool := h_early s || negb (h_late s).
Definition Q4b (cf : config) (s : state) : bool :=
  negb (is_cret (s_c s) && negb (h_early s)) ||
  forallb (fun l => negb (is_some (step cf s l))) [TLaunch; TRelaunch; GEnter].
Definition Q5b (cf : config) (s : state) : bool :=
  negb (close_hyp cf s) ||
  forallb (fun l => match step cf s l with Some s' => close_hyp cf s' | None => true end) all_labels.

Lemma Q1_three : three Q1b = true. Proof. vm_compute. reflexivity. Qed.
Lemma Q2_three : three Q2b = true. Proof. vm_compute. reflexivity. Qed.
Lemma Q3_three : three Q3b = true. Proof. vm_compute. reflexivity. Qed.
Lemma Q4_three : three Q4b = true. Proof. vm_compute. reflexivity. Qed.
Lemma Q5_three : three Q5b = true. Proof. vm_compute. reflexivity. Qed.

(* after Close has returned every transition (of the code or of the environment) strictly decreases
   qmu: every schedule comes to rest within qmu steps *)
Lemma close_stops_decreases cf s l s' :
  repaired cf -> reachable cf s -> close_hyp cf s = true -> step cf s l = Some s' ->
  qmu cf s' < qmu cf s /\ close_hyp cf s' = true.
Proof.
  intros Hk Hr Hh Hs. split.
  - pose proof (three_sound _ Q1_three cf s Hk Hr) as H. unfold Q1b in H. rewrite Hh in H. cbn [negb orb andb] in H.
    apply Nat.ltb_lt. exact (all_steps cf s (fun _ s' => qmu cf s' <? qmu cf s) H l s' Hs).
  - pose proof (three_sound _ Q5_three cf s Hk Hr) as H. unfold Q5b in H. rewrite Hh in H. cbn [negb orb andb] in H.
    exact (all_steps cf s (fun _ s' => close_hyp cf s') H l s' Hs).
Qed.

Lemma close_stops_run cf ls : forall s s',
  repaired cf -> reachable cf s -> close_hyp cf s = true -> run cf s ls = Some s' ->
  length ls + qmu cf s' <= qmu cf s.
Proof.
  induction ls as [|l r IH]; simpl; intros s s' Hk Hr Hh H.
  - inversion H; subst. lia.
  - destruct (step cf s l) as [s1|] eqn:E; [|discriminate].
    destruct (close_stops_decreases cf s l s1 Hk Hr Hh E) as [Hlt Hh1].
    assert (Hr1 : reachable cf s1) by (eapply reach_step; eassumption).
    specialize (IH s1 s' Hk Hr1 Hh1 H). lia.
Qed.

(* where it comes to rest nothing of the recoverer is left *)
Lemma close_stops_quiescent cf s :
  repaired cf -> reachable cf s -> close_hyp cf s = true -> stable cf s = true -> quiescent s = true.
Proof.
  intros Hk Hr Hh Hst. pose proof (three_sound _ Q2_three cf s Hk Hr) as H. unfold Q2b in H.
  rewrite Hh, Hst in H. cbn [negb orb andb] in H. exact H.
Qed.

(* service.Start is never entered after Close has returned, and no launch is even enabled *)
Lemma close_stops_no_restart cf s :
  repaired cf -> reachable cf s -> h_early s = false ->
  h_late s = false /\
  (is_cret (s_c s) = true -> step cf s TLaunch = None /\ step cf s TRelaunch = None /\ step cf s GEnter = None).
Proof.
  intros Hk Hr He. split.
  - pose proof (three_sound _ Q3_three cf s Hk Hr) as H. unfold Q3b in H. rewrite He in H. cbn [negb orb andb] in H.
    destruct (h_late s); [discriminate | reflexivity].
  - intro Hc. pose proof (three_sound _ Q4_three cf s Hk Hr) as H. unfold Q4b in H.
    rewrite Hc, He in H. cbn [negb orb andb] in H. rewrite forallb_forall in H.
    assert (A : forall l, In l [TLaunch; TRelaunch; GEnter] -> step cf s l = None).
    { intros l Hl. specialize (H l Hl). destruct (step cf s l); [discriminate | reflexivity]. }
    repeat split; apply A; simpl; tauto.
Qed.

(* the ghost flag is set only by the one race: for a sticky service it is irrelevant, otherwise it
   records that service.Close() ran while service.Start was launched but not entered *)
Definition E1b (cf : config) (s : state) : bool :=
  forallb (fun l => match step cf s l with
                    | Some s' => Bool.eqb (h_early s') (h_early s) ||
                                 (match l with CSvcL => pending_launch s | _ => false end)
                    | None => true end) all_labels.
Lemma E1_six : six E1b = true. Proof. vm_compute. reflexivity. Qed.
Lemma early_only_by_race cf s l s' :
  known_cfg cf -> reachable cf s -> step cf s l = Some s' -> h_early s' <> h_early s ->
  l = CSvcL /\ pending_launch s = true.
Proof.
  intros Hk Hr Hs Hne. pose proof (six_sound _ E1_six cf s Hk Hr) as H. unfold E1b in H.
  pose proof (all_steps cf s _ H l s' Hs) as H1. cbn [negb orb andb] in H1.
  apply orb_true_iff in H1 as [H1|H1].
  - apply Bool.eqb_prop in H1. contradiction.
  - destruct l; try discriminate. split; [reflexivity | exact H1].
Qed.

(* ------------------------------------------------------------------ panic containment *)
Definition R_hyp (cf : config) (s : state) : bool :=
  negb (is_once (knd cf)) && (match s_c s with CIdle => true | _ => false end) && recovering s.
Definition R_q (s : state) (l : label) (s' : state) : bool :=
  if is_ecall l then true
  else if is_env l then recovering s' && (rmu s' =? rmu s)
  else g_active (s_g s') || (recovering s' && (rmu s' <? rmu s)).
Definition R_con (cf : config) (s : state) : bool :=
  negb (stable cf s) &&
  forallb (fun l => match step cf s l with Some s' => R_q s l s' | None => true end) all_labels.
Definition Rb (cf : config) (s : state) : bool := if R_hyp cf s then R_con cf s else true.
Definition Rpb (cf : config) (s : state) : bool :=
  match step cf s GPanic with Some s' => recovering s' && (rmu s' <=? 7) | None => true end.
Definition Lb (cf : config) (s : state) : bool := negb (h_lost s).
Definition Ob (cf : config) (s : state) : bool :=
  negb (is_once (knd cf)) || negb (g_active (s_g s)) || (n_starts s =? 1).

Lemma R_six : six Rb = true. Proof. vm_compute. reflexivity. Qed.
Lemma Rp_six : six Rpb = true. Proof. vm_compute. reflexivity. Qed.
Lemma L_six : six Lb = true. Proof. vm_compute. reflexivity. Qed.
Lemma O_six : six Ob = true. Proof. vm_compute. reflexivity. Qed.

Lemma stable_false_enabled cf s : stable cf s = false -> exists l s', is_env l = false /\ step cf s l = Some s'.
Proof.
  unfold stable, enabled_int, enabled. intro H.
  destruct (filter (fun l => negb (is_env l)) (filter (fun l => is_some (step cf s l)) all_labels)) as [|l r] eqn:E; [discriminate|].
  assert (Hin : In l (l :: r)) by (left; reflexivity). rewrite <- E in Hin.
  apply filter_In in Hin as [Hin He]. apply filter_In in Hin as [_ Hs].
  destruct (step cf s l) as [s'|] eqn:E2; [|discriminate]. exists l, s'. split; [|exact E2].
  destruct (is_env l); [discriminate | reflexivity].
Qed.

(* a panic of service.Start puts the recoverer into recovery (at most 7 transitions from running) *)
Lemma panic_starts_recovery cf s s' :
  known_cfg cf -> reachable cf s -> step cf s GPanic = Some s' -> recovering s' = true /\ rmu s' <= 7.
Proof.
  intros Hk Hr Hs. pose proof (six_sound _ Rp_six cf s Hk Hr) as H. unfold Rpb in H. rewrite Hs in H.
  apply andb_true_iff in H as [H1 H2]. split; [exact H1 | apply Nat.leb_le; exact H2].
Qed.

(* while the plug-in is open (Close not called) a recovering recoverer of a restartable service is
   never stuck, every transition of the code brings service.Start nearer (the cool-down timer is one
   of them), and the environment cannot push it back *)
Lemma recovery_hyp cf s :
  knd cf <> KOnce -> s_c s = CIdle -> recovering s = true -> R_hyp cf s = true.
Proof.
  intros Hn Hc Hrec. unfold R_hyp. rewrite Hc, Hrec. destruct (knd cf); [congruence | reflexivity | reflexivity].
Qed.

Lemma recovery_con cf s :
  known_cfg cf -> reachable cf s -> R_hyp cf s = true -> R_con cf s = true.
Proof.
  intros Hk Hr Hh. pose proof (six_sound Rb R_six cf s Hk Hr) as H. unfold Rb in H. rewrite Hh in H. exact H.
Qed.

Lemma recovery_not_stuck cf s :
  R_con cf s = true -> exists l s', is_env l = false /\ step cf s l = Some s'.
Proof.
  unfold R_con. intro H. apply andb_true_iff in H as [H1 _].
  apply stable_false_enabled. destruct (stable cf s); [discriminate | reflexivity].
Qed.

Lemma recovery_steps cf s l s' :
  R_con cf s = true -> step cf s l = Some s' -> R_q s l s' = true.
Proof.
  unfold R_con. intros H Hs. apply andb_true_iff in H as [_ H2].
  exact (all_steps cf s (R_q s) H2 l s' Hs).
Qed.

Lemma recovery_progress cf s :
  known_cfg cf -> knd cf <> KOnce -> reachable cf s -> s_c s = CIdle -> recovering s = true ->
  (exists l s', is_env l = false /\ step cf s l = Some s') /\
  (forall l s', step cf s l = Some s' -> l <> ECall ->
     if is_env l then recovering s' = true /\ rmu s' = rmu s
     else g_active (s_g s') = true \/ (recovering s' = true /\ rmu s' < rmu s)).
Proof.
  intros Hk Hn Hr Hc Hrec.
  pose proof (recovery_con cf s Hk Hr (recovery_hyp cf s Hn Hc Hrec)) as H. split.
  - exact (recovery_not_stuck cf s H).
  - intros l s' Hs Hne. pose proof (recovery_steps cf s l s' H Hs) as H3. unfold R_q in H3.
    assert (He : is_ecall l = false) by (destruct l; try reflexivity; congruence).
    rewrite He in H3. destruct (is_env l).
    + apply andb_true_iff in H3 as [A B]. split; [exact A | apply Nat.eqb_eq; exact B].
    + apply orb_true_iff in H3 as [A|A]; [left; exact A | right].
      apply andb_true_iff in A as [A B]. split; [exact A | apply Nat.ltb_lt; exact B].
Qed.

(* a launch never overwrites a live service goroutine: at most one exists at a time *)
Lemma one_service_goroutine cf s : known_cfg cf -> reachable cf s -> h_lost s = false.
Proof.
  intros Hk Hr. pose proof (six_sound _ L_six cf s Hk Hr) as H. unfold Lb in H.
  destruct (h_lost s); [discriminate | reflexivity].
Qed.

(* a start-once service executes only its first Start: whatever the recoverer does after a panic,
   service.Start never executes again *)
Lemma once_only_first_start cf s :
  known_cfg cf -> knd cf = KOnce -> reachable cf s -> g_active (s_g s) = true -> n_starts s = 1.
Proof.
  intros Hk Ho Hr Ha. pose proof (six_sound _ O_six cf s Hk Hr) as H. unfold Ob in H.
  rewrite Ho, Ha in H. cbn [negb orb andb] in H. apply Nat.eqb_eq. exact H.
Qed.

(* ------------------------------------------------------------------ refutations (explicit schedules) *)
Definition leak_after_close (cf : config) (s : state) : bool :=
  is_cret (s_c s) && stable cf s && negb (quiescent s).

(* (a) old code: Close before Start set `running` *)
Definition w_early_close : list label := [ECall; CReadL; EStart; TBegin; TLaunch; TSetRunL; GEnter].
(* (b) old code: Close during the cool-down *)
Definition w_cooldown : list label :=
  [EStart; TBegin; TLaunch; TSetRunL; GEnter; EPanic; GPanic; GPut; TRecv; ECall; CReadL; CSvcL; CSigL;
   TTimer; TRelaunch; GEnter; TRecv; TStopL].
(* (c) old code: Close races the service's own return *)
Definition w_races_return : list label :=
  [EStart; TBegin; TLaunch; TSetRunL; GEnter; ECall; CReadL; CSvcL; GStop; GPut; CWaitL; CSigL; TRecv].
Definition w_races_return_fresh : list label :=
  [EStart; TBegin; TLaunch; TSetRunL; GEnter; ECall; CReadL; CSvcL; GStop; GPut; CSigL; TRecv].
(* (a') repaired code: service.Close() before service.Start was entered *)
Definition w_before_service_start : list label :=
  [EStart; TBegin; TCheck; TLaunch; ECall; CMarkL; CReadL; CSvcL; CSigL; TExit; GEnter].
(* start-once service after a panic *)
Definition w_restart_once : list label :=
  [EStart; TBegin; TCheck; TLaunch; GEnter; EPanic; GPanic; GPut; TRecv; TTimer; TReCheck; TRelaunch; GEnter; GPut; TRecv].

Definition final (cf : config) (w : list label) : state :=
  match run cf init w with Some s => s | None => init end.

Lemma refute_early_close k :
  exists s, run (cfg_old k) init w_early_close = Some s /\ leak_after_close (cfg_old k) s = true /\
            s_c s = CRet CNotRunning /\ g_active (s_g s) = true.
Proof. exists (final (cfg_old k) w_early_close). destruct k; vm_compute; repeat split. Qed.

Lemma refute_cooldown :
  exists s, run (cfg_old KFresh) init w_cooldown = Some s /\ leak_after_close (cfg_old KFresh) s = true /\
            g_active (s_g s) = true /\ h_late s = true /\ is_tret (s_t s) = true.
Proof. exists (final (cfg_old KFresh) w_cooldown). vm_compute; repeat split. Qed.

Definition races_return_shape (cf : config) (s : state) : Prop :=
  leak_after_close cf s = true /\ s_c s = CRet CNil /\ s_t s = TSel /\ s_buf s = None /\
  s_running s = true /\ g_live (s_g s) = false.
Lemma refute_races_return :
  (exists s, run (cfg_old KOnce) init w_races_return = Some s /\ races_return_shape (cfg_old KOnce) s) /\
  (exists s, run (cfg_old KFresh) init w_races_return_fresh = Some s /\ races_return_shape (cfg_old KFresh) s).
Proof.
  split.
  - exists (final (cfg_old KOnce) w_races_return). vm_compute; repeat split.
  - exists (final (cfg_old KFresh) w_races_return_fresh). vm_compute; repeat split.
Qed.

Lemma refute_before_service_start k :
  k <> KSticky ->
  exists s, run (cfg_new k) init w_before_service_start = Some s /\ leak_after_close (cfg_new k) s = true /\
            g_active (s_g s) = true /\ h_early s = true /\ is_tret (s_t s) = true.
Proof. intro H. exists (final (cfg_new k) w_before_service_start). destruct k; try congruence; vm_compute; repeat split. Qed.

Lemma refute_restart_once :
  exists s, run (cfg_new KOnce) init w_restart_once = Some s /\ s_c s = CIdle /\ stable (cfg_new KOnce) s = true /\
            g_live (s_g s) = false /\ n_starts s = 2.
Proof. exists (final (cfg_new KOnce) w_restart_once). vm_compute; repeat split. Qed.

(* the same schedules are harmless in the repaired model *)
Lemma repaired_runs_blocked :
  run (cfg_new KFresh) init w_early_close = None /\ run (cfg_new KFresh) init w_cooldown = None /\
  run (cfg_new KOnce) init w_races_return = None /\ run (cfg_new KFresh) init w_races_return_fresh = None.
Proof. vm_compute. repeat split. Qed.

(* ------------------------------------------------------------------ checker soundness *)
Lemma C18_check_sound c : C18_check c = true -> C18_spec c.
Proof.
  unfold C18_check, C18_spec. intros H Hs Ha. rewrite Hs, Ha in H. cbn [andb] in H. split.
  - intro Hc. rewrite Hc in H. repeat rewrite andb_true_iff in H. destruct H as [[[[H1 H2] H3] H4] H5].
    apply Nat.leb_le in H1. apply Nat.leb_le in H2. apply Nat.eqb_eq in H4.
    repeat split; try assumption.
    + intro E. rewrite E in H3. discriminate.
    + destruct (o_late (k_obs c)); [discriminate | reflexivity].
  - intros Hc Hr. rewrite Hc, Hr in H. apply Nat.eqb_eq. exact H.
Qed.
