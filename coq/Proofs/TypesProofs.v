From Verif Require Import Base.Util Model.Types.

Lemma land_true_iff (a b : bool) : (a &&& b) = true <-> a = true /\ b = true.
Proof. destruct a, b; simpl; intuition congruence. Qed.

Lemma opt_eqb_eq {A} (e : A -> A -> bool) :
  (forall a b, e a b = true <-> a = b) -> forall a b, opt_eqb e a b = true <-> a = b.
Proof.
  intros He [x|] [y|]; simpl; split; intro H; try discriminate; try reflexivity.
  - apply He in H. congruence.
  - inversion H. apply He. reflexivity.
Qed.

Lemma bk_eqb_eq a b : bk_eqb a b = true <-> a = b.
Proof.
  unfold bk_eqb. rewrite land_true_iff, !N.eqb_eq. destruct a, b; simpl. split.
  - intros [-> ->]. reflexivity.
  - intro H. inversion H. auto.
Qed.

Lemma ext_eqb_eq a b : ext_eqb a b = true <-> a = b.
Proof.
  unfold ext_eqb. rewrite !land_true_iff, !N.eqb_eq. destruct a, b; simpl. split.
  - intros [[[-> ->] ->] ->]. reflexivity.
  - intro H. inversion H. auto.
Qed.

Lemma trig_eqb_eq a b : trig_eqb a b = true <-> a = b.
Proof.
  unfold trig_eqb. rewrite !land_true_iff, !N.eqb_eq, (opt_eqb_eq ext_eqb ext_eqb_eq).
  destruct a, b; simpl. split.
  - intros [[-> ->] ->]. reflexivity.
  - intro H. inversion H. auto.
Qed.

Lemma bool_eqb_eq a b : Bool.eqb a b = true <-> a = b.
Proof. destruct a, b; simpl; split; intro; congruence. Qed.

Lemma result_eqb_eq a b : result_eqb a b = true <-> a = b.
Proof.
  unfold result_eqb.
  rewrite !land_true_iff, !N.eqb_eq, !bool_eqb_eq, trig_eqb_eq,
    (list_eqb_eq N.eqb N.eqb_eq), !(opt_eqb_eq Z.eqb Z.eqb_eq).
  destruct a, b; simpl. split.
  - intros [[[[[[[[[[-> ->] ->] ->] ->] ->] ->] ->] ->] ->] ->]. reflexivity.
  - intro H. inversion H. repeat split; reflexivity.
Qed.

Lemma prop_eqb_eq a b : prop_eqb a b = true <-> a = b.
Proof.
  unfold prop_eqb. rewrite !land_true_iff, !N.eqb_eq, trig_eqb_eq. destruct a, b; simpl. split.
  - intros [[-> ->] ->]. reflexivity.
  - intro H. inversion H. auto.
Qed.
