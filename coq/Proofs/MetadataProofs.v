(* Lemmas about the metadata store model (Model/Metadata.v). *)
From Coq Require Import ZifyBool ZifyNat ZifyN.
From Verif Require Import Base.Util Model.Metadata.
Open Scope Z_scope.

(* ------------------------------------------------------------------ values map *)

Lemma prop_eqb_eq a b : prop_eqb a b = true <-> a = b.
Proof.
  unfold prop_eqb. destruct a, b; simpl. rewrite !andb_true_iff, !N.eqb_eq. split.
  - intros [[[? ?] ?] ?]; subst; reflexivity.
  - intro H; inversion H; auto.
Qed.

Lemma vget_vdel_same k vals : vget k (vdel k vals) = None.
Proof.
  unfold vget, vdel. induction vals as [|[k' v] vals IH]; simpl; [reflexivity|].
  destruct (N.eqb k' k) eqn:E; simpl; [exact IH | rewrite E; exact IH].
Qed.

Lemma vget_vdel_other k k' vals : k' <> k -> vget k' (vdel k vals) = vget k' vals.
Proof.
  intro Hn. unfold vget, vdel. induction vals as [|[k0 v] vals IH]; simpl; [reflexivity|].
  destruct (N.eqb k0 k) eqn:E; simpl.
  - apply N.eqb_eq in E. subst k0. assert (N.eqb k k' = false) as -> by (apply N.eqb_neq; congruence). exact IH.
  - destruct (N.eqb k0 k'); [reflexivity | exact IH].
Qed.

Lemma vget_app k a b : vget k (a ++ b) = match vget k a with Some r => Some r | None => vget k b end.
Proof.
  unfold vget. induction a as [|[k0 v] a IH]; simpl; [reflexivity|].
  destruct (N.eqb k0 k); [reflexivity | exact IH].
Qed.

Lemma vget_vset_same k v vals : vget k (vset k v vals) = Some v.
Proof.
  unfold vset. rewrite vget_app, vget_vdel_same. unfold vget. simpl. rewrite N.eqb_refl. reflexivity.
Qed.

Lemma vget_vset_other k k' v vals : k' <> k -> vget k' (vset k v vals) = vget k' vals.
Proof.
  intro Hn. unfold vset. rewrite vget_app, vget_vdel_other by exact Hn.
  destruct (vget k' vals); [reflexivity|]. unfold vget. simpl.
  assert (N.eqb k k' = false) as -> by (apply N.eqb_neq; congruence). reflexivity.
Qed.

(* ------------------------------------------------------------------ keys slice *)

Lemma remove_first_In k l x : NoDup l -> (In x (remove_first k l) <-> In x l /\ x <> k).
Proof.
  induction l as [|y l IH]; intro Hn; simpl; [tauto|]. inversion Hn; subst.
  destruct (N.eqb y k) eqn:E.
  - apply N.eqb_eq in E. subst y. split.
    + intro H. split; [right; exact H|]. intro. subst. contradiction.
    + intros [[H|H] Hx]; [congruence | exact H].
  - apply N.eqb_neq in E. simpl. rewrite (IH H2). split.
    + intros [H|[H H']]; [subst; auto | auto].
    + intros [[H|H] Hx]; [left; exact H | right; auto].
Qed.

Lemma remove_first_NoDup k l : NoDup l -> NoDup (remove_first k l).
Proof.
  induction l as [|y l IH]; intro Hn; simpl; [constructor|]. inversion Hn; subst.
  destruct (N.eqb y k); [exact H2|]. constructor; [|apply IH; exact H2].
  intro H. apply remove_first_In in H; [|exact H2]. tauto.
Qed.

Lemma insertN_In x y l : In y (insertN x l) <-> y = x \/ In y l.
Proof.
  induction l as [|z l IH]; simpl; [intuition|].
  destruct (x <=? z)%N; simpl; [intuition|]. rewrite IH. intuition.
Qed.

Lemma isort_In y l : In y (isort l) <-> In y l.
Proof.
  induction l as [|x l IH]; simpl; [tauto|]. rewrite insertN_In, IH. intuition.
Qed.

Lemma strictly_sorted_cons x l :
  strictly_sorted (x :: l) = true <-> (forall y, In y l -> (x < y)%N) /\ strictly_sorted l = true.
Proof.
  revert x. induction l as [|z l IH]; intro x.
  - simpl. split; [intros _; split; [intros y []|reflexivity] | reflexivity].
  - change (strictly_sorted (x :: z :: l)) with ((x <? z)%N && strictly_sorted (z :: l)).
    rewrite andb_true_iff, N.ltb_lt. split.
    + intros [H1 H2]. split; [|exact H2]. intros y [<-|Hy]; [exact H1|].
      apply IH in H2 as [H2 _]. specialize (H2 y Hy). lia.
    + intros [H1 H2]. split; [apply H1; left; reflexivity | exact H2].
Qed.

Lemma insertN_strict x l : strictly_sorted l = true -> ~ In x l -> strictly_sorted (insertN x l) = true.
Proof.
  induction l as [|z l IH]; intros Hs Hn; [reflexivity|]. simpl.
  destruct (x <=? z)%N eqn:E.
  - apply strictly_sorted_cons. split; [|exact Hs]. intros y [<-|Hy].
    + apply N.leb_le in E. assert (x <> z) by (intro; subst; apply Hn; left; reflexivity). lia.
    + apply strictly_sorted_cons in Hs as [Hs _]. specialize (Hs y Hy). apply N.leb_le in E. lia.
  - apply N.leb_gt in E. apply strictly_sorted_cons in Hs as [Hs1 Hs2].
    apply strictly_sorted_cons. split.
    + intros y Hy. apply insertN_In in Hy as [->|Hy]; [exact E | apply Hs1; exact Hy].
    + apply IH; [exact Hs2|]. intro H. apply Hn. right. exact H.
Qed.

Lemma isort_strict l : NoDup l -> strictly_sorted (isort l) = true.
Proof.
  induction l as [|x l IH]; intro Hn; [reflexivity|]. inversion Hn; subst. simpl.
  apply insertN_strict; [apply IH; exact H2|]. rewrite isort_In. exact H1.
Qed.

Lemma strictly_sorted_NoDup l : strictly_sorted l = true -> NoDup l.
Proof.
  induction l as [|x l IH]; intro H; [constructor|]. apply strictly_sorted_cons in H as [H1 H2].
  constructor; [|apply IH; exact H2]. intro Hin. specialize (H1 x Hin). lia.
Qed.

Lemma strictly_sorted_flat_map {A} (f : N -> list A) (g : A -> N) l :
  strictly_sorted l = true ->
  (forall k, In k l -> f k = [] \/ exists a, f k = [a] /\ g a = k) ->
  strictly_sorted (map g (flat_map f l)) = true.
Proof.
  induction l as [|x l IH]; intros Hs Hf; [reflexivity|]. simpl. rewrite map_app.
  apply strictly_sorted_cons in Hs as [Hs1 Hs2].
  assert (IH' : strictly_sorted (map g (flat_map f l)) = true).
  { apply IH; [exact Hs2|]. intros k Hk. apply Hf. right. exact Hk. }
  destruct (Hf x (or_introl eq_refl)) as [->|[a [-> Ha]]]; [exact IH'|]. simpl.
  apply strictly_sorted_cons. split; [|exact IH'].
  intros y Hy. apply in_map_iff in Hy as [b [Hb Hin]]. apply in_flat_map in Hin as [k [Hk Hin]].
  destruct (Hf k (or_intror Hk)) as [E|[a' [E Ha']]]; rewrite E in Hin; [contradiction|].
  destruct Hin as [<-|[]]. rewrite Ha, <- Hb, Ha'. apply Hs1. exact Hk.
Qed.

(* ------------------------------------------------------------------ well-formed ordered map *)

Definition wf (m : omap) : Prop :=
  NoDup (om_keys m) /\ forall k, In k (om_keys m) <-> vget k (om_vals m) <> None.

Lemma wf_empty : wf om_empty.
Proof. split; [constructor|]. intro k. simpl. unfold vget. simpl. split; [intros [] | congruence]. Qed.

Lemma wf_add k v m : wf m -> wf (om_add k v m).
Proof.
  intros [Hn Hk]. unfold om_add. destruct (vget k (om_vals m)) eqn:E; split; simpl.
  - exact Hn.
  - intro k'. destruct (N.eq_dec k' k) as [->|Hne].
    + rewrite vget_vset_same. split; [congruence|]. intros _. apply Hk. congruence.
    + rewrite vget_vset_other by exact Hne. apply Hk.
  - apply NoDup_snoc; [exact Hn|]. intro H. apply Hk in H. congruence.
  - intro k'. rewrite in_app_iff. simpl. destruct (N.eq_dec k' k) as [->|Hne].
    + rewrite vget_vset_same. split; [congruence | auto].
    + rewrite vget_vset_other by exact Hne. rewrite <- Hk. intuition congruence.
Qed.

Lemma wf_delete k m : wf m -> wf (om_delete k m).
Proof.
  intros [Hn Hk]. split; simpl; [apply remove_first_NoDup; exact Hn|].
  intro k'. rewrite remove_first_In by exact Hn. destruct (N.eq_dec k' k) as [->|Hne].
  - rewrite vget_vdel_same. intuition congruence.
  - rewrite vget_vdel_other by exact Hne. rewrite <- Hk. intuition.
Qed.

Lemma wf_sorted_keys m : wf m -> wf (mkOM (isort (om_keys m)) (om_vals m)).
Proof.
  intros [Hn Hk]. split; simpl.
  - apply strictly_sorted_NoDup, isort_strict, Hn.
  - intro k. rewrite isort_In. apply Hk.
Qed.

(* ------------------------------------------------------------------ the repaired view loop *)

Definition dead (expiry now : Z) (vals : list (N * mrec)) (k : N) : bool := rec_expired expiry now (vget k vals).
Definition emit (expiry now : Z) (vals : list (N * mrec)) (k : N) : list prop :=
  match vget k vals with
  | Some r => if now - m_at r >? expiry then [] else [m_prop r]
  | None => []
  end.

Lemma emit_ext expiry now vals vals' ks :
  (forall k, In k ks -> vget k vals' = vget k vals) ->
  flat_map (emit expiry now vals') ks = flat_map (emit expiry now vals) ks.
Proof.
  induction ks as [|k ks IH]; intro H; simpl; [reflexivity|].
  rewrite IH by (intros; apply H; right; assumption).
  unfold emit. rewrite (H k (or_introl eq_refl)). reflexivity.
Qed.

Lemma vloop expiry now ks : NoDup ks -> forall m out m' out', wf m ->
  fold_left (vbody expiry now) ks (m, out) = (m', out') ->
  wf m' /\ out' = out ++ flat_map (emit expiry now (om_vals m)) ks /\
  forall k', vget k' (om_vals m') =
             if memN k' ks && dead expiry now (om_vals m) k' then None else vget k' (om_vals m).
Proof.
  induction ks as [|k ks IH]; intros Hn m out m' out' Hwf H; simpl in H.
  - inversion H; subst. split; [exact Hwf|]. split; [rewrite app_nil_r; reflexivity|]. intro k'. reflexivity.
  - inversion Hn; subst.
    assert (Hdel : forall mm oo, fold_left (vbody expiry now) ks (om_delete k m, out) = (mm, oo) ->
              dead expiry now (om_vals m) k = true -> emit expiry now (om_vals m) k = [] ->
              wf mm /\ oo = out ++ flat_map (emit expiry now (om_vals m)) (k :: ks) /\
              forall k', vget k' (om_vals mm) =
                if memN k' (k :: ks) && dead expiry now (om_vals m) k' then None else vget k' (om_vals m)).
    { intros mm oo Hf Hd He. apply IH in Hf as [W [O V]]; [|exact H3|apply wf_delete; exact Hwf].
      split; [exact W|]. split.
      - simpl. rewrite He. simpl. rewrite O. f_equal. apply emit_ext. intros k0 Hk0. simpl.
        apply vget_vdel_other. intro. subst. contradiction.
      - intro k'. rewrite V. simpl. destruct (N.eq_dec k' k) as [->|Hne].
        + rewrite N.eqb_refl. simpl. rewrite Hd. rewrite vget_vdel_same.
          destruct (memN k ks && dead expiry now (vdel k (om_vals m)) k); reflexivity.
        + assert (N.eqb k' k = false) as -> by (apply N.eqb_neq; exact Hne). simpl.
          unfold dead. rewrite !vget_vdel_other by exact Hne. reflexivity. }
    destruct (vget k (om_vals m)) as [r|] eqn:Eg.
    + destruct (now - m_at r >? expiry) eqn:Ex.
      * apply Hdel; [exact H | unfold dead; rewrite Eg; exact Ex | unfold emit; rewrite Eg, Ex; reflexivity].
      * apply IH in H as [W [O V]]; [|exact H3|exact Hwf]. split; [exact W|]. split.
        -- simpl. replace (emit expiry now (om_vals m) k) with [m_prop r] by (unfold emit; rewrite Eg, Ex; reflexivity).
           rewrite O, <- app_assoc. reflexivity.
        -- intro k'. rewrite V. simpl. destruct (N.eq_dec k' k) as [->|Hne].
           ++ rewrite N.eqb_refl. simpl. unfold dead. rewrite Eg. simpl. rewrite Ex. rewrite andb_false_r. reflexivity.
           ++ assert (N.eqb k' k = false) as -> by (apply N.eqb_neq; exact Hne). reflexivity.
    + apply Hdel; [exact H | unfold dead; rewrite Eg; reflexivity | unfold emit; rewrite Eg; reflexivity].
Qed.

Lemma view_copy_spec expiry now m m' out : wf m -> view_copy expiry now m = (m', out) ->
  wf m' /\ out = flat_map (emit expiry now (om_vals m)) (isort (om_keys m)) /\
  forall k, vget k (om_vals m') = if dead expiry now (om_vals m) k then None else vget k (om_vals m).
Proof.
  intros Hwf H. unfold view_copy in H.
  pose proof (wf_sorted_keys m Hwf) as Hwf'.
  apply vloop in H as [W [O V]]; [| apply strictly_sorted_NoDup, isort_strict, Hwf | exact Hwf'].
  simpl in *. split; [exact W|]. split; [exact O|]. intro k. rewrite V.
  destruct (memN k (isort (om_keys m))) eqn:Em; [reflexivity|]. simpl.
  apply memN_false_In in Em. rewrite isort_In in Em. destruct Hwf as [_ Hk].
  destruct (vget k (om_vals m)) eqn:Eg.
  - exfalso. apply Em, Hk. congruence.
  - unfold dead. rewrite Eg. reflexivity.
Qed.

Lemma view_copy_In expiry now m m' out p : wf m -> view_copy expiry now m = (m', out) ->
  (In p out <-> exists k r, vget k (om_vals m) = Some r /\ now - m_at r <= expiry /\ m_prop r = p).
Proof.
  intros Hwf H. destruct (view_copy_spec _ _ _ _ _ Hwf H) as [_ [-> _]].
  rewrite in_flat_map. split.
  - intros [k [Hk Hin]]. unfold emit in Hin. destruct (vget k (om_vals m)) as [r|] eqn:Eg; [|contradiction].
    destruct (now - m_at r >? expiry) eqn:Ex; [contradiction|]. destruct Hin as [<-|[]].
    exists k, r. split; [exact Eg|]. split; [lia | reflexivity].
  - intros [k [r [Eg [Hx Hp]]]]. exists k. split.
    + rewrite isort_In. apply Hwf. congruence.
    + unfold emit. rewrite Eg. assert (now - m_at r >? expiry = false) as -> by lia. left. exact Hp.
Qed.

Lemma view_copy_sorted expiry now m m' out : wf m ->
  (forall k r, vget k (om_vals m) = Some r -> p_wid (m_prop r) = k) ->
  view_copy expiry now m = (m', out) -> strictly_sorted (map p_wid out) = true.
Proof.
  intros Hwf Hkey H. destruct (view_copy_spec _ _ _ _ _ Hwf H) as [_ [-> _]].
  apply strictly_sorted_flat_map; [apply isort_strict, Hwf|].
  intros k _. unfold emit. destruct (vget k (om_vals m)) as [r|] eqn:Eg; [|left; reflexivity].
  destruct (now - m_at r >? expiry); [left; reflexivity|]. right. exists (m_prop r). split; [reflexivity|].
  apply Hkey. exact Eg.
Qed.

(* ------------------------------------------------------------------ the store along a trace *)

Definition sel (typ : N) (s : mstore) : omap := if N.eqb typ 0 then ms_cond s else ms_log s.
Definition exp_of (ex : Z * Z) (typ : N) : Z := if N.eqb typ 0 then fst ex else snd ex.

Lemma stored_typ_cases typ : stored_typ typ = true -> typ = 0%N \/ typ = 1%N.
Proof. unfold stored_typ. rewrite orb_true_iff, !N.eqb_eq. tauto. Qed.

Lemma sel_add typ now s p : stored_typ typ = true ->
  sel typ (ms_add now s p) = if N.eqb (p_typ p) typ then om_add (p_wid p) (mkMRec now p) (sel typ s) else sel typ s.
Proof.
  intro H. apply stored_typ_cases in H as [->| ->]; unfold ms_add, sel; simpl;
    destruct (p_typ p) as [|[q|q|]]; reflexivity.
Qed.

Lemma sel_rem typ s p : stored_typ typ = true ->
  sel typ (ms_rem s p) = if N.eqb (p_typ p) typ then om_delete (p_wid p) (sel typ s) else sel typ s.
Proof.
  intro H. apply stored_typ_cases in H as [->| ->]; unfold ms_rem, sel; simpl;
    destruct (p_typ p) as [|[q|q|]]; reflexivity.
Qed.

Lemma sel_view typ ex now s typ' : stored_typ typ = true ->
  sel typ (fst (ms_view true ex now s typ')) =
    if N.eqb typ' typ then fst (view_copy (exp_of ex typ) now (sel typ s)) else sel typ s.
Proof.
  intro H. apply stored_typ_cases in H as [->| ->]; unfold ms_view, sel, exp_of, om_view; simpl;
    destruct typ' as [|[q|q|]]; simpl; try reflexivity.
  - destruct (view_copy (fst ex) now (ms_cond s)); reflexivity.
  - destruct (view_copy (snd ex) now (ms_log s)); reflexivity.
  - destruct (view_copy (fst ex) now (ms_cond s)); reflexivity.
  - destruct (view_copy (snd ex) now (ms_log s)); reflexivity.
Qed.

Lemma view_out typ ex now s : stored_typ typ = true ->
  snd (ms_view true ex now s typ) = snd (view_copy (exp_of ex typ) now (sel typ s)).
Proof.
  intro H. apply stored_typ_cases in H as [->| ->]; unfold ms_view, sel, exp_of, om_view; simpl.
  - destruct (view_copy (fst ex) now (ms_cond s)); reflexivity.
  - destruct (view_copy (snd ex) now (ms_log s)); reflexivity.
Qed.

Lemma view_out_unstored typ ex fixed now s : stored_typ typ = false -> snd (ms_view fixed ex now s typ) = [].
Proof.
  unfold stored_typ, ms_view. destruct typ as [|[q|q|]]; simpl; try discriminate; reflexivity.
Qed.

Lemma last_add_snoc typ k pre x :
  last_add typ k (pre ++ [x]) =
    match snd x with
    | MAdd1 p => if N.eqb (p_typ p) typ && N.eqb (p_wid p) k then Some (fst x, p) else last_add typ k pre
    | MRem1 p => if N.eqb (p_typ p) typ && N.eqb (p_wid p) k then None else last_add typ k pre
    | MView _ => last_add typ k pre
    end.
Proof. unfold last_add. rewrite fold_left_app. reflexivity. Qed.

Lemma ms_run_snoc ex pre x : ms_run true ex (pre ++ [x]) = fst (ms_step true ex (ms_run true ex pre) x).
Proof. unfold ms_run, ms_run_from. rewrite fold_left_app. reflexivity. Qed.

(* invariant tying one ordered map to the trace that produced it *)
Definition tr_inv (ex : Z * Z) (typ : N) (pre : mtrace) (m : omap) : Prop :=
  wf m /\
  (forall k r, vget k (om_vals m) = Some r ->
     last_add typ k pre = Some (m_at r, m_prop r) /\ p_wid (m_prop r) = k /\ p_typ (m_prop r) = typ) /\
  (forall k t0 p, last_add typ k pre = Some (t0, p) -> vget k (om_vals m) = None ->
     exists x, In x pre /\ fst x - t0 > exp_of ex typ).

Lemma tr_inv_step ex typ pre x : stored_typ typ = true ->
  tr_inv ex typ pre (sel typ (ms_run true ex pre)) ->
  tr_inv ex typ (pre ++ [x]) (sel typ (ms_run true ex (pre ++ [x]))).
Proof.
  intros Hst [Hwf [HA HB]]. rewrite ms_run_snoc. set (s := ms_run true ex pre) in *.
  assert (Hweak : forall t0, (exists y, In y pre /\ fst y - t0 > exp_of ex typ) ->
                                 exists y, In y (pre ++ [x]) /\ fst y - t0 > exp_of ex typ).
  { intros t0 [y [Hy Ht]]. exists y. split; [apply in_or_app; left; exact Hy | exact Ht]. }
  unfold ms_step. destruct x as [t o]. simpl. destruct o as [p|p|typ'].
  - (* add *)
    simpl. rewrite sel_add by exact Hst.
    destruct (N.eqb (p_typ p) typ) eqn:Et.
    + split; [apply wf_add; exact Hwf|]. split.
      * intros k r Hg. rewrite last_add_snoc. simpl. rewrite Et. simpl.
        unfold om_add in Hg.
        assert (Hg' : vget k (vset (p_wid p) (mkMRec t p) (om_vals (sel typ s))) = Some r)
          by (destruct (vget (p_wid p) (om_vals (sel typ s))); exact Hg).
        destruct (N.eq_dec k (p_wid p)) as [->|Hne].
        -- rewrite N.eqb_refl. rewrite vget_vset_same in Hg'. inversion Hg'; subst. simpl.
           apply N.eqb_eq in Et. auto.
        -- assert (N.eqb (p_wid p) k = false) as -> by (apply N.eqb_neq; congruence).
           rewrite vget_vset_other in Hg' by exact Hne. apply HA. exact Hg'.
      * intros k t0 q Hl Hg. rewrite last_add_snoc in Hl. simpl in Hl. rewrite Et in Hl. simpl in Hl.
        unfold om_add in Hg.
        assert (Hg' : vget k (vset (p_wid p) (mkMRec t p) (om_vals (sel typ s))) = None)
          by (destruct (vget (p_wid p) (om_vals (sel typ s))); exact Hg).
        destruct (N.eq_dec k (p_wid p)) as [->|Hne].
        -- rewrite vget_vset_same in Hg'. discriminate.
        -- assert (N.eqb (p_wid p) k = false) as E by (apply N.eqb_neq; congruence). rewrite E in Hl.
           rewrite vget_vset_other in Hg' by exact Hne. apply (Hweak t0). eapply HB; eauto.
    + split; [exact Hwf|]. split.
      * intros k r Hg. rewrite last_add_snoc. simpl. rewrite Et. simpl. apply HA. exact Hg.
      * intros k t0 q Hl Hg. rewrite last_add_snoc in Hl. simpl in Hl. rewrite Et in Hl. simpl in Hl.
        apply (Hweak t0). eapply HB; eauto.
  - (* remove *)
    simpl. rewrite sel_rem by exact Hst.
    destruct (N.eqb (p_typ p) typ) eqn:Et.
    + split; [apply wf_delete; exact Hwf|]. split.
      * intros k r Hg. rewrite last_add_snoc. simpl. rewrite Et. simpl. simpl in Hg.
        destruct (N.eq_dec k (p_wid p)) as [->|Hne].
        -- rewrite vget_vdel_same in Hg. discriminate.
        -- assert (N.eqb (p_wid p) k = false) as -> by (apply N.eqb_neq; congruence).
           rewrite vget_vdel_other in Hg by exact Hne. apply HA. exact Hg.
      * intros k t0 q Hl Hg. rewrite last_add_snoc in Hl. simpl in Hl. rewrite Et in Hl. simpl in Hl, Hg.
        destruct (N.eq_dec k (p_wid p)) as [->|Hne].
        -- rewrite N.eqb_refl in Hl. discriminate.
        -- assert (N.eqb (p_wid p) k = false) as E by (apply N.eqb_neq; congruence). rewrite E in Hl.
           rewrite vget_vdel_other in Hg by exact Hne. apply (Hweak t0). eapply HB; eauto.
    + split; [exact Hwf|]. split.
      * intros k r Hg. rewrite last_add_snoc. simpl. rewrite Et. simpl. apply HA. exact Hg.
      * intros k t0 q Hl Hg. rewrite last_add_snoc in Hl. simpl in Hl. rewrite Et in Hl. simpl in Hl.
        apply (Hweak t0). eapply HB; eauto.
  - (* view *)
    rewrite sel_view by exact Hst.
    destruct (N.eqb typ' typ) eqn:Et.
    + destruct (view_copy (exp_of ex typ) t (sel typ s)) as [m' out] eqn:Ev. simpl.
      destruct (view_copy_spec _ _ _ _ _ Hwf Ev) as [W [_ V]].
      split; [exact W|]. split.
      * intros k r Hg. rewrite last_add_snoc. simpl. rewrite V in Hg.
        destruct (dead (exp_of ex typ) t (om_vals (sel typ s)) k); [discriminate|]. apply HA. exact Hg.
      * intros k t0 q Hl Hg. rewrite last_add_snoc in Hl. simpl in Hl. rewrite V in Hg.
        destruct (vget k (om_vals (sel typ s))) as [r|] eqn:Eg.
        -- unfold dead in Hg. rewrite Eg in Hg. simpl in Hg.
           destruct (t - m_at r >? exp_of ex typ) eqn:Ex; [|discriminate].
           destruct (HA k r Eg) as [Hl' _]. rewrite Hl in Hl'. inversion Hl'; subst.
           exists (t, MView typ'). split; [apply in_or_app; right; left; reflexivity | simpl; lia].
        -- apply (Hweak t0). eapply HB; eauto.
    + split; [exact Hwf|]. split.
      * intros k r Hg. rewrite last_add_snoc. simpl. apply HA. exact Hg.
      * intros k t0 q Hl Hg. rewrite last_add_snoc in Hl. simpl in Hl. apply (Hweak t0). eapply HB; eauto.
Qed.

Lemma tr_inv_run ex typ pre : stored_typ typ = true -> tr_inv ex typ pre (sel typ (ms_run true ex pre)).
Proof.
  intro Hst. induction pre as [|x pre IH] using rev_ind.
  - assert (sel typ (ms_run true ex []) = om_empty) as -> by (unfold sel; destruct (N.eqb typ 0); reflexivity).
    split; [apply wf_empty|]. split.
    + intros k r H. unfold vget in H. simpl in H. discriminate.
    + intros k t0 p H. unfold last_add in H. simpl in H. discriminate.
  - apply tr_inv_step; assumption.
Qed.

(* ------------------------------------------------------------------ time *)

Definition tsorted {A} (tr : list (Z * A)) : Prop :=
  forall l1 a l2 b l3, tr = l1 ++ a :: l2 ++ b :: l3 -> fst a <= fst b.

Lemma tsorted_last {A} (pre : list (Z * A)) y x : tsorted (pre ++ [y]) -> In x pre -> fst x <= fst y.
Proof.
  intros H Hin. apply in_split in Hin as [u [v ->]]. apply (H u x v y []). rewrite <- app_assoc. reflexivity.
Qed.

Lemma tsorted_app_l {A} (a b : list (Z * A)) : tsorted (a ++ b) -> tsorted a.
Proof.
  intros H l1 x l2 y l3 Heq. apply (H l1 x l2 y (l3 ++ b)). rewrite Heq.
  repeat (rewrite <- app_assoc; simpl). reflexivity.
Qed.

Fixpoint tsorted_b {A} (last : Z) (tr : list (Z * A)) : bool :=
  match tr with
  | [] => true
  | x :: tr' => if last <=? fst x then tsorted_b (fst x) tr' else false
  end.

Lemma tsorted_b_lb {A} lo (tr : list (Z * A)) : tsorted_b lo tr = true -> forall x, In x tr -> lo <= fst x.
Proof.
  revert lo. induction tr as [|y tr IH]; intros lo H x Hin; simpl in *; [contradiction|].
  destruct (lo <=? fst y) eqn:E; [|discriminate]. apply Z.leb_le in E.
  destruct Hin as [->|Hin]; [exact E|]. specialize (IH _ H x Hin). lia.
Qed.

Lemma tsorted_b_sound {A} lo (tr : list (Z * A)) : tsorted_b lo tr = true -> tsorted tr.
Proof.
  revert lo. induction tr as [|y tr IH]; intros lo H l1 a l2 b l3 Heq.
  - destruct l1; discriminate.
  - simpl in H. destruct (lo <=? fst y); [|discriminate].
    destruct l1 as [|z l1]; simpl in Heq; inversion Heq; subst.
    + apply (tsorted_b_lb _ _ H). apply in_or_app. right. left. reflexivity.
    + eapply IH; eauto.
Qed.

(* ------------------------------------------------------------------ views are exact (repaired loop) *)

Lemma ms_view_exact ex pre t typ :
  tsorted (pre ++ [(t, MView typ)]) ->
  let V := snd (ms_view true ex t (ms_run true ex pre) typ) in
  strictly_sorted (map p_wid V) = true /\ forall p, In p V <-> pending ex typ pre t p.
Proof.
  intros Hs V. destruct (stored_typ typ) eqn:Hst.
  2:{ unfold V. rewrite view_out_unstored by exact Hst. split; [reflexivity|].
      intro p. split; [intros [] | intros [H _]; congruence]. }
  destruct (tr_inv_run ex typ pre Hst) as [Hwf [HA HB]].
  unfold V. rewrite view_out by exact Hst.
  destruct (view_copy (exp_of ex typ) t (sel typ (ms_run true ex pre))) as [m' out] eqn:Ev. simpl.
  split.
  - eapply view_copy_sorted; [exact Hwf | | exact Ev]. intros k r Hg. apply (HA k r Hg).
  - intro p. rewrite (view_copy_In _ _ _ _ _ p Hwf Ev). unfold pending. fold (exp_of ex typ). split.
    + intros [k [r [Hg [Hx Hp]]]]. destruct (HA k r Hg) as [Hl [Hw Ht]]. subst p.
      split; [exact Hst|]. split; [exact Ht|]. exists (m_at r). rewrite Hw. auto.
    + intros [_ [Ht [t0 [Hl Hx]]]].
      destruct (vget (p_wid p) (om_vals (sel typ (ms_run true ex pre)))) as [r|] eqn:Eg.
      * destruct (HA _ r Eg) as [Hl' _]. rewrite Hl in Hl'. inversion Hl'; subst.
        exists (p_wid (m_prop r)), r. auto.
      * destruct (HB _ t0 p Hl Eg) as [x [Hin Hgt]].
        pose proof (tsorted_last pre (t, MView typ) x Hs Hin) as Hle. simpl in Hle. lia.
Qed.

(* afterwards nothing expired is left under that type *)
Lemma ms_view_purges ex pre t typ k r : stored_typ typ = true ->
  vget k (om_vals (sel typ (fst (ms_view true ex t (ms_run true ex pre) typ)))) = Some r ->
  t - m_at r <= exp_of ex typ.
Proof.
  intros Hst Hg. rewrite sel_view in Hg by exact Hst. rewrite N.eqb_refl in Hg.
  destruct (tr_inv_run ex typ pre Hst) as [Hwf _].
  destruct (view_copy (exp_of ex typ) t (sel typ (ms_run true ex pre))) as [m' out] eqn:Ev. simpl in Hg.
  destruct (view_copy_spec _ _ _ _ _ Hwf Ev) as [_ [_ V]]. rewrite V in Hg.
  destruct (vget k (om_vals (sel typ (ms_run true ex pre)))) as [r'|] eqn:Eg; unfold dead in Hg; rewrite Eg in Hg; simpl in Hg.
  - destruct (t - m_at r' >? exp_of ex typ) eqn:Ex; [discriminate|]. inversion Hg; subst. lia.
  - discriminate.
Qed.

(* ------------------------------------------------------------------ the model's observed trace *)

Definition ms_observe (fixed : bool) (ex : Z * Z) (tr : mtrace) : motrace := combine tr (ms_outs fixed ex tr).

Lemma observe_split fixed ex tr : forall s pre x V post,
  combine tr (ms_outs_from fixed ex s tr) = pre ++ (x, V) :: post ->
  tr = mforget pre ++ x :: mforget post /\
  V = snd (ms_step fixed ex (ms_run_from fixed ex s (mforget pre)) x).
Proof.
  induction tr as [|y tr IH]; intros s pre x V post H; simpl in H.
  - destruct pre; discriminate.
  - destruct (ms_step fixed ex s y) as [s' out] eqn:Es. simpl in H.
    destruct pre as [|z pre]; simpl in H; inversion H; subst.
    + simpl. rewrite Es. simpl. split; [|reflexivity]. f_equal.
      clear. revert s'. induction tr as [|a tr IH]; intro s'; simpl; [reflexivity|].
      destruct (ms_step fixed ex s' a) as [s'' o]. simpl. f_equal. apply IH.
    + apply IH in H2 as [H1 H2]. simpl. rewrite Es. simpl. split; [f_equal; exact H1 | exact H2].
Qed.

Lemma ms_model_meets_spec ex tr : tsorted tr -> C11_view_spec ex (ms_observe true ex tr).
Proof.
  intros Hs pre t typ V post Hot. unfold ms_observe, ms_outs in Hot.
  apply observe_split in Hot as [Htr HV]. fold (ms_run true ex (mforget pre)) in HV.
  unfold ms_step in HV. simpl in HV. rewrite HV.
  apply ms_view_exact. rewrite Htr in Hs.
  apply (tsorted_app_l _ (mforget post)). rewrite <- app_assoc. exact Hs.
Qed.

(* ------------------------------------------------------------------ the aliased loop of the pinned commit *)

Lemma ms_view_alias_refuted :
  exists ex tr, tsorted tr /\ ~ C11_view_spec ex (ms_observe false ex tr).
Proof.
  exists (100, 100),
    [(0, MAdd1 (mkProp 1 1 5 1)); (10, MAdd1 (mkProp 1 2 5 2)); (10, MAdd1 (mkProp 1 3 5 3)); (105, MView 1)].
  split; [apply (tsorted_b_sound 0); reflexivity|].
  intro H.
  destruct (H [(0, MAdd1 (mkProp 1 1 5 1), []); (10, MAdd1 (mkProp 1 2 5 2), []); (10, MAdd1 (mkProp 1 3 5 3), [])]
              105 1%N [mkProp 1 3 5 3; mkProp 1 3 5 3] []) as [Hsorted _]; [vm_compute; reflexivity|].
  vm_compute in Hsorted. discriminate.
Qed.

(* ------------------------------------------------------------------ checker K is sound *)

Lemma pending_b_spec ex typ pre t p : pending_b ex typ pre t p = true <-> pending ex typ pre t p.
Proof.
  unfold pending_b, pending. rewrite !andb_true_iff, N.eqb_eq. split.
  - intros [[H1 H2] H3]. split; [exact H1|]. split; [exact H2|].
    destruct (last_add typ (p_wid p) pre) as [[t0 q]|]; [|discriminate].
    apply andb_true_iff in H3 as [H3 H4]. apply prop_eqb_eq in H3. subst q. exists t0. split; [reflexivity | lia].
  - intros [H1 [H2 [t0 [H3 H4]]]]. split; [split; assumption|]. rewrite H3.
    apply andb_true_iff. split; [apply prop_eqb_eq; reflexivity | lia].
Qed.

Lemma last_add_app typ k a b :
  last_add typ k (a ++ b) =
  fold_left (fun acc x =>
    match snd x with
    | MAdd1 p => if N.eqb (p_typ p) typ && N.eqb (p_wid p) k then Some (fst x, p) else acc
    | MRem1 p => if N.eqb (p_typ p) typ && N.eqb (p_wid p) k then None else acc
    | MView _ => acc
    end) b (last_add typ k a).
Proof. unfold last_add. apply fold_left_app. Qed.

Lemma last_add_added typ k pre t0 p : last_add typ k pre = Some (t0, p) -> In p (added_props pre).
Proof.
  induction pre as [|x pre IH] using rev_ind; [discriminate|].
  rewrite last_add_snoc. unfold added_props. rewrite flat_map_app, in_app_iff. simpl.
  destruct (snd x) as [q|q|ty].
  - destruct (N.eqb (p_typ q) typ && N.eqb (p_wid q) k).
    + intro H. inversion H; subst. right. left. reflexivity.
    + intro H. left. apply IH. exact H.
  - destruct (N.eqb (p_typ q) typ && N.eqb (p_wid q) k); [discriminate|]. intro H. left. apply IH. exact H.
  - intro H. left. apply IH. exact H.
Qed.

Lemma mview_ok_sound ex pre t typ V : mview_ok_b ex pre t typ V = true ->
  strictly_sorted (map p_wid V) = true /\ forall p, In p V <-> pending ex typ pre t p.
Proof.
  unfold mview_ok_b. rewrite !andb_true_iff. intros [[H1 H2] H3]. split; [exact H1|].
  rewrite forallb_forall in H2, H3. intro p. split.
  - intro Hin. apply pending_b_spec. apply H2. exact Hin.
  - intro Hp. pose proof Hp as [_ [_ [t0 [Hl _]]]]. apply last_add_added in Hl.
    specialize (H3 p Hl). apply pending_b_spec in Hp. rewrite Hp in H3.
    apply existsb_exists in H3 as [q [Hq He]]. apply prop_eqb_eq in He. subst q. exact Hq.
Qed.

Lemma view_check_from_sound ex ot : forall pre0,
  C11_view_check_from ex pre0 ot = true ->
  forall pre t typ V post, ot = pre ++ (t, MView typ, V) :: post ->
    strictly_sorted (map p_wid V) = true /\ forall p, In p V <-> pending ex typ (pre0 ++ mforget pre) t p.
Proof.
  induction ot as [|x ot IH]; intros pre0 H pre t typ V post Hot.
  - destruct pre; discriminate.
  - simpl in H. apply andb_true_iff in H as [H1 H2].
    destruct pre as [|y pre]; simpl in Hot; inversion Hot; subst.
    + simpl in H1. rewrite app_nil_r. apply mview_ok_sound. exact H1.
    + specialize (IH _ H2 pre t typ V post eq_refl). simpl. rewrite <- app_assoc in IH. exact IH.
Qed.

Lemma C11_view_check_sound ex ot : C11_view_check ex ot = true -> C11_view_spec ex ot.
Proof.
  intros H pre t typ V post Hot. apply (view_check_from_sound ex ot [] H pre t typ V post Hot).
Qed.

(* ------------------------------------------------------------------ removed proposals are not proposed again *)

Definition readds (p : prop) (x : Z * mop) : bool :=
  match snd x with MAdd1 q => N.eqb (p_typ q) (p_typ p) && N.eqb (p_wid q) (p_wid p) | _ => false end.

Lemma last_add_after_remove p a t' b :
  forallb (fun x => negb (readds p x)) b = true ->
  last_add (p_typ p) (p_wid p) (a ++ (t', MRem1 p) :: b) = None.
Proof.
  intro Hb. rewrite last_add_app. simpl. rewrite !N.eqb_refl. simpl.
  induction b as [|x b IH]; simpl; [reflexivity|].
  simpl in Hb. apply andb_true_iff in Hb as [Hx Hb]. apply negb_true_iff in Hx. unfold readds in Hx.
  destruct (snd x) as [q|q|ty].
  - rewrite Hx. apply IH. exact Hb.
  - destruct (N.eqb (p_typ q) (p_typ p) && N.eqb (p_wid q) (p_wid p)); apply IH; exact Hb.
  - apply IH. exact Hb.
Qed.

Lemma removed_not_proposed ex p a t' b t :
  tsorted ((a ++ (t', MRem1 p) :: b) ++ [(t, MView (p_typ p))]) ->
  forallb (fun x => negb (readds p x)) b = true ->
  forall q, In q (snd (ms_view true ex t (ms_run true ex (a ++ (t', MRem1 p) :: b)) (p_typ p))) ->
            p_wid q <> p_wid p.
Proof.
  intros Hs Hb q Hin Hw.
  apply (ms_view_exact ex _ t (p_typ p) Hs) in Hin. destruct Hin as [_ [_ [t0 [Hl _]]]].
  rewrite Hw, (last_add_after_remove p a t' b Hb) in Hl. discriminate.
Qed.
