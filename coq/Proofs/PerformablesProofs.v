(* Vote counting and selection of agreed performables (properties C01, C02). *)
From Verif Require Import Base.Util Model.Types Model.Outcome Proofs.TypesProofs Proofs.SortProofs.
From Coq Require Import Sorting.Sorted ZifyBool ZifyN ZifyNat.
Open Scope N_scope.

Section P.
  Variable uid : result -> N.
  Variable shuf : N -> N.

  Notation votes := (list (N * (result * nat))).

  Fixpoint vget (v : votes) (u : N) : option (result * nat) :=
    match v with
    | [] => None
    | (u0, rc) :: t => if u0 =? u then Some rc else vget t u
    end.

  Definition occ (u : N) (rs : list result) : list result := filter (fun r => uid r =? u) rs.

  Lemma vget_vadd1 v r u :
    vget (vadd1 uid v r) u =
      if u =? uid r
      then match vget v u with None => Some (r, 1%nat) | Some (r0, c) => Some (r0, S c) end
      else vget v u.
  Proof.
    unfold vadd1. induction v as [|[u0 [r0 c]] t IH]; simpl.
    - destruct (uid r =? u) eqn:E1, (u =? uid r) eqn:E2; try reflexivity; lia.
    - destruct (u0 =? uid r) eqn:E0; simpl.
      + destruct (u0 =? u) eqn:E1, (u =? uid r) eqn:E2; try reflexivity; lia.
      + destruct (u0 =? u) eqn:E1.
        * destruct (u =? uid r) eqn:E2; [lia | reflexivity].
        * exact IH.
  Qed.

  Lemma vget_fold rs : forall v u,
    vget (fold_left (vadd1 uid) rs v) u =
      match vget v u with
      | Some (r0, c) => Some (r0, (c + length (occ u rs))%nat)
      | None => match occ u rs with [] => None | r :: t => Some (r, S (length t)) end
      end.
  Proof.
    induction rs as [|r rs IH]; intros v u; simpl.
    - destruct (vget v u) as [[r0 c]|]; [rewrite Nat.add_0_r|]; reflexivity.
    - rewrite IH, vget_vadd1. unfold occ at 1 3. simpl. fold (occ u rs).
      destruct (u =? uid r) eqn:E.
      + replace (uid r =? u) with true by lia.
        destruct (vget v u) as [[r0 c]|]; simpl; [f_equal; f_equal; lia | reflexivity].
      + replace (uid r =? u) with false by lia. reflexivity.
  Qed.

  Lemma keys_vadd1 v r : forall u, In u (map fst (vadd1 uid v r)) <-> In u (map fst v) \/ u = uid r.
  Proof.
    unfold vadd1. induction v as [|[u0 [r0 c]] t IH]; intro u; simpl.
    - intuition.
    - destruct (u0 =? uid r) eqn:E; simpl.
      + assert (u0 = uid r) by lia. subst. intuition.
      + rewrite IH. intuition.
  Qed.

  Lemma nodup_vadd1 v r : NoDup (map fst v) -> NoDup (map fst (vadd1 uid v r)).
  Proof.
    pose proof (keys_vadd1) as K. unfold vadd1 in *.
    induction v as [|[u0 [r0 c]] t IH]; simpl; intro N.
    - constructor; [intros []|constructor].
    - inversion N as [|? ? Nin Nt]; subst. destruct (u0 =? uid r) eqn:E; simpl.
      + constructor; assumption.
      + constructor; [|apply IH; assumption].
        rewrite K. intros [H|H]; [auto | lia].
  Qed.

  Lemma nodup_fold rs : forall v, NoDup (map fst v) -> NoDup (map fst (fold_left (vadd1 uid) rs v)).
  Proof. induction rs as [|r rs IH]; intros v N; simpl; [exact N | apply IH, nodup_vadd1, N]. Qed.

  Lemma vget_In v u rc : NoDup (map fst v) -> (In (u, rc) v <-> vget v u = Some rc).
  Proof.
    induction v as [|[u0 rc0] t IH]; simpl; intro N.
    - split; [intros [] | discriminate].
    - inversion N as [|? ? Nin Nt]; subst. destruct (u0 =? u) eqn:E.
      + assert (u0 = u) by lia. subst. split.
        * intros [H|H]; [congruence|]. exfalso. apply Nin. change u with (fst (u, rc)). apply in_map, H.
        * intro H. left. congruence.
      + rewrite <- (IH Nt). split; [intros [H|H]; [inversion H; lia | exact H] | auto].
  Qed.

  (* folding over observations = folding over the concatenation of their performables *)
  Lemma vadd_fold obs : forall v,
    fold_left (vadd uid) obs v = fold_left (vadd1 uid) (flat_map o_perf obs) v.
  Proof.
    induction obs as [|o obs IH]; intro v; simpl; [reflexivity|].
    rewrite IH. unfold vadd. rewrite fold_left_app. reflexivity.
  Qed.

  (* C01_votes: what the vote table holds after any list of observations *)
  Theorem votes_spec obs u :
    let v := fold_left (vadd uid) obs [] in
    NoDup (map fst v) /\
    vget v u = match occ u (flat_map o_perf obs) with
               | [] => None
               | r :: t => Some (r, S (length t))
               end.
  Proof.
    simpl. rewrite vadd_fold. split; [apply nodup_fold; constructor|].
    rewrite vget_fold. reflexivity.
  Qed.

  (* ---------------- pick ---------------- *)
  Lemma pick_In thr : forall l added r,
    In r (pick thr added l) ->
    exists u c, In (u, (r, c)) l /\ (thr <= c)%nat /\ ~ In (r_wid r) added.
  Proof.
    induction l as [|[u [r0 c]] t IH]; intros added r H; simpl in H; [destruct H|].
    destruct (Nat.leb thr c && negb (memN (r_wid r0) added)) eqn:E.
    - apply andb_true_iff in E as [E1 E2]. rewrite negb_true_iff, memN_false_In in E2.
      destruct H as [->|H].
      + exists u, c. repeat split; [left; reflexivity | lia | exact E2].
      + destruct (IH _ _ H) as [u' [c' [Hi [Hc Hn]]]]. exists u', c'.
        repeat split; [right; exact Hi | exact Hc | intro Hx; apply Hn; right; exact Hx].
    - destruct (IH _ _ H) as [u' [c' [Hi [Hc Hn]]]]. exists u', c'. repeat split; auto. right; exact Hi.
  Qed.

  Lemma pick_nodup thr : forall l added,
    NoDup (map r_wid (pick thr added l)) /\
    forall r, In r (pick thr added l) -> ~ In (r_wid r) added.
  Proof.
    induction l as [|[u [r0 c]] t IH]; intro added; simpl; [split; [constructor | intros r []]|].
    destruct (Nat.leb thr c && negb (memN (r_wid r0) added)) eqn:E.
    - apply andb_true_iff in E as [E1 E2]. rewrite negb_true_iff, memN_false_In in E2.
      destruct (IH (r_wid r0 :: added)) as [N D]. split.
      + simpl. constructor; [|exact N]. intro Hin. apply in_map_iff in Hin as [r [Hw Hr]].
        apply (D r Hr). left. congruence.
      + intros r [->|Hr]; [exact E2|]. intro Hx. apply (D r Hr). right. exact Hx.
    - apply IH.
  Qed.

  Lemma pick_complete thr : forall l added u r c,
    In (u, (r, c)) l -> (thr <= c)%nat ->
    In (r_wid r) added \/ exists r', In r' (pick thr added l) /\ r_wid r' = r_wid r.
  Proof.
    induction l as [|[u0 [r0 c0]] t IH]; intros added u r c Hin Hc; [destruct Hin|]. simpl.
    destruct Hin as [Heq|Hin].
    - inversion Heq; subst. replace (Nat.leb thr c) with true by lia. simpl.
      destruct (memN (r_wid r) added) eqn:M; simpl.
      + left. apply memN_In. exact M.
      + right. exists r. split; [left; reflexivity | reflexivity].
    - destruct (Nat.leb thr c0 && negb (memN (r_wid r0) added)) eqn:E.
      + destruct (IH (r_wid r0 :: added) u r c Hin Hc) as [[H|H]|[r' [H1 H2]]].
        * right. exists r0. split; [left; reflexivity | exact H].
        * left. exact H.
        * right. exists r'. split; [right; exact H1 | exact H2].
      + destruct (IH added u r c Hin Hc) as [H|[r' [H1 H2]]]; [left; exact H|].
        right. exists r'. split; assumption.
  Qed.

  (* the first quorum result for a work id in sorted-uid order is the one picked *)

  (* ---------------- pset ---------------- *)
  Section PSet.
    Variable pi_u : votes -> votes.
    Hypothesis pi_perm : forall v, Permutation (pi_u v) v.
    Variables (thr limit : nat).

    Definition cands (v : votes) : list result := pick thr [] (sort_by fst (pi_u v)).

    Lemma pset_unfold v : pset shuf pi_u thr limit v = firstn limit (sort_by (fun r => shuf (r_wid r)) (cands v)).
    Proof. reflexivity. Qed.

    Lemma In_sorted_votes v x : In x (sort_by fst (pi_u v)) <-> In x v.
    Proof.
      rewrite sort_by_In. split; intro H; eapply Permutation_in; try exact H;
        [apply pi_perm | apply Permutation_sym, pi_perm].
    Qed.

    Lemma firstn_In {A} n (l : list A) x : In x (firstn n l) -> In x l.
    Proof. revert n; induction l as [|a t IH]; intros [|n] H; simpl in *; try tauto. destruct H; [left|right]; eauto. Qed.

    Lemma pset_In v r : In r (pset shuf pi_u thr limit v) -> In r (cands v).
    Proof. rewrite pset_unfold. intro H. apply firstn_In in H. apply sort_by_In in H. exact H. Qed.

    Lemma cands_quorum v r : In r (cands v) -> exists u c, In (u, (r, c)) v /\ (thr <= c)%nat.
    Proof.
      intro H. apply pick_In in H as [u [c [Hi [Hc _]]]]. exists u, c. split; [|exact Hc].
      apply In_sorted_votes. exact Hi.
    Qed.

    Lemma cands_nodup v : NoDup (map r_wid (cands v)).
    Proof. apply pick_nodup. Qed.

    Lemma NoDup_map_firstn {A B} (f : A -> B) n (l : list A) : NoDup (map f l) -> NoDup (map f (firstn n l)).
    Proof.
      revert n; induction l as [|a t IH]; intros [|n] N; simpl; try constructor.
      - inversion N; subst. intro H. apply in_map_iff in H as [x [Hx Hi]]. apply firstn_In in Hi.
        match goal with H : ~ In _ _ |- _ => apply H end. rewrite <- Hx. apply in_map. exact Hi.
      - inversion N; subst. apply IH. assumption.
    Qed.

    Lemma pset_nodup v : NoDup (map r_wid (pset shuf pi_u thr limit v)).
    Proof.
      rewrite pset_unfold. apply NoDup_map_firstn.
      eapply Permutation_NoDup; [apply Permutation_map, Permutation_sym, sort_by_perm | apply cands_nodup].
    Qed.

    Lemma pset_length v : (length (pset shuf pi_u thr limit v) <= limit)%nat.
    Proof. rewrite pset_unfold. apply firstn_le_length. Qed.

    Lemma In_result_dec (r : result) l : {In r l} + {~ In r l}.
    Proof.
      destruct (existsb (result_eqb r) l) eqn:E.
      - left. apply existsb_exists in E as [x [Hx He]]. apply result_eqb_eq in He. subst. exact Hx.
      - right. intro H. assert (existsb (result_eqb r) l = true).
        { apply existsb_exists. exists r. split; [exact H | apply result_eqb_eq; reflexivity]. }
        congruence.
    Qed.

    Lemma NoDup_map_inj {A B} (f : A -> B) (l : list A) a b :
      NoDup (map f l) -> In a l -> In b l -> f a = f b -> a = b.
    Proof.
      induction l as [|x t IH]; simpl; intros N Ha Hb E; [destruct Ha|]. inversion N as [|? ? Nin Nt]; subst.
      destruct Ha as [->|Ha], Hb as [->|Hb]; auto.
      - exfalso. apply Nin. rewrite E. apply in_map, Hb.
      - exfalso. apply Nin. rewrite <- E. apply in_map, Ha.
    Qed.

    (* displaced only by the cap; strict when the shuffle is injective *)
    Lemma pset_cap_strict v r : (forall a b, shuf a = shuf b -> a = b) -> In r (cands v) ->
      In r (pset shuf pi_u thr limit v) \/
      (length (pset shuf pi_u thr limit v) = limit /\
       forall y, In y (pset shuf pi_u thr limit v) -> shuf (r_wid y) < shuf (r_wid r)).
    Proof.
      intros Sinj H. destruct (In_result_dec r (pset shuf pi_u thr limit v)) as [Hin|Hnin]; [left; exact Hin | right].
      rewrite pset_unfold in *.
      pose proof (firstn_sorted_cut (fun r0 => shuf (r_wid r0)) limit _ r
                    (sort_by_sorted _ _) (proj2 (sort_by_In _ _ _) H) Hnin) as [Hl Hy].
      rewrite sort_by_length in Hl. split.
      - rewrite firstn_length, sort_by_length. lia.
      - intros y Hyin. pose proof (Hy y Hyin) as Hle.
        assert (Hne : shuf (r_wid y) <> shuf (r_wid r)); [|lia].
        intro E. apply Sinj in E.
        assert (Hyc : In y (cands v)) by (apply firstn_In in Hyin; apply sort_by_In in Hyin; exact Hyin).
        pose proof (NoDup_map_inj r_wid (cands v) y r (cands_nodup v) Hyc H E) as Heq. subst y.
        apply Hnin. exact Hyin.
    Qed.

    (* displaced only by the cap *)
    Lemma pset_cap v r : In r (cands v) ->
      In r (pset shuf pi_u thr limit v) \/
      ((limit <= length (cands v))%nat /\
       forall y, In y (pset shuf pi_u thr limit v) -> shuf (r_wid y) <= shuf (r_wid r)).
    Proof.
      intro H. rewrite pset_unfold.
      destruct (In_result_dec r (firstn limit (sort_by (fun r0 => shuf (r_wid r0)) (cands v)))) as [Hin|Hnin];
        [left; exact Hin | right].
      pose proof (firstn_sorted_cut (fun r0 => shuf (r_wid r0)) limit _ r
                    (sort_by_sorted _ _) (proj2 (sort_by_In _ _ _) H) Hnin) as [Hl Hy].
      rewrite sort_by_length in Hl. split; assumption.
    Qed.
  End PSet.

  (* ---------------- tie to the observations of the round ---------------- *)
  Definition support (r : result) (obs : list observation) : nat :=
    length (filter (fun o => existsb (result_eqb r) (o_perf o)) obs).

  Definition obs_ok (o : observation) : Prop := NoDup (map r_wid (o_perf o)).

  Section Inj.
    Hypothesis uid_inj : forall a b, uid a = uid b -> a = b.

    Lemma NoDup_of_map {A B} (f : A -> B) (l : list A) : NoDup (map f l) -> NoDup l.
    Proof.
      induction l as [|a t IH]; simpl; intro N; [constructor|]. inversion N; subst.
      constructor; [|apply IH; assumption]. intro H. match goal with H0 : ~ In _ _ |- _ => apply H0 end. apply in_map, H.
    Qed.

    Lemma occ_one r l : NoDup l ->
      length (occ (uid r) l) = if existsb (result_eqb r) l then 1%nat else 0%nat.
    Proof.
      induction l as [|a t IH]; simpl; intro N; [reflexivity|]. inversion N as [|? ? Nin Nt]; subst.
      unfold occ in *. simpl. destruct (uid a =? uid r) eqn:E.
      - assert (a = r) by (apply uid_inj; lia). subst a.
        replace (result_eqb r r) with true by (symmetry; apply result_eqb_eq; reflexivity). simpl.
        rewrite (IH Nt). destruct (existsb (result_eqb r) t) eqn:Ex; [|reflexivity].
        exfalso. apply Nin. apply existsb_exists in Ex as [x [Hx He]]. apply result_eqb_eq in He. subst. exact Hx.
      - destruct (result_eqb r a) eqn:E2; [apply result_eqb_eq in E2; subst; lia|]. simpl. apply IH, Nt.
    Qed.

    Lemma occ_app u a b : occ u (a ++ b) = occ u a ++ occ u b.
    Proof. unfold occ. apply filter_app. Qed.

    Lemma occ_support r obs : Forall obs_ok obs ->
      length (occ (uid r) (flat_map o_perf obs)) = support r obs.
    Proof.
      induction obs as [|o obs IH]; intro F; simpl; [reflexivity|]. inversion F as [|? ? Ho Fo]; subst.
      rewrite occ_app, app_length, (IH Fo), (occ_one r (o_perf o) (NoDup_of_map _ _ Ho)).
      unfold support. simpl. destruct (existsb (result_eqb r) (o_perf o)); simpl; lia.
    Qed.

    Lemma occ_head u l r t : occ u l = r :: t -> uid r = u /\ In r l.
    Proof.
      unfold occ. intro H. assert (Hi : In r (filter (fun r0 => uid r0 =? u) l)) by (rewrite H; left; reflexivity).
      apply filter_In in Hi as [Hi He]. split; [lia | exact Hi].
    Qed.

    Section Round.
      Variable pi_u : votes -> votes.
      Hypothesis pi_perm : forall v, Permutation (pi_u v) v.
      Variables (thr limit : nat).
      Variable obs : list observation.
      Hypothesis obs_valid : Forall obs_ok obs.

      Let v := fold_left (vadd uid) obs [].
      Let agreed := pset shuf pi_u thr limit v.

      Lemma entry_support u r c : In (u, (r, c)) v -> u = uid r /\ c = support r obs /\ (1 <= c)%nat.
      Proof.
        intro H. destruct (votes_spec obs u) as [Nv Hg]. fold v in Nv, Hg.
        apply (vget_In v u (r, c) Nv) in H. rewrite Hg in H.
        destruct (occ u (flat_map o_perf obs)) as [|r1 t] eqn:E; [discriminate|]. inversion H; subst r1 c.
        destruct (occ_head _ _ _ _ E) as [Hu _]. split; [congruence|].
        rewrite <- (occ_support r obs obs_valid). rewrite Hu, E. simpl. split; [reflexivity | lia].
      Qed.

      (* C01 soundness: every agreed result was sent, field for field, by >= thr valid observations *)
      Theorem agreed_sound r : In r agreed -> (thr <= support r obs)%nat.
      Proof.
        intro H. apply (pset_In pi_u) in H. apply (cands_quorum pi_u pi_perm) in H as [u [c [Hi Hc]]].
        destruct (entry_support _ _ _ Hi) as [_ [Hs _]]. lia.
      Qed.

      Theorem agreed_nodup : NoDup (map r_wid agreed) /\ (length agreed <= limit)%nat.
      Proof. split; [apply pset_nodup | apply pset_length]. Qed.

      Lemma support_entry r : (1 <= support r obs)%nat -> In (uid r, (r, support r obs)) v.
      Proof.
        intro Hs. destruct (votes_spec obs (uid r)) as [Nv Hg]. fold v in Nv, Hg.
        apply (vget_In v (uid r) _ Nv). rewrite Hg.
        pose proof (occ_support r obs obs_valid) as Hl.
        destruct (occ (uid r) (flat_map o_perf obs)) as [|r1 t] eqn:E; simpl in Hl; [lia|].
        destruct (occ_head _ _ _ _ E) as [Hu _]. apply uid_inj in Hu. subst r1. rewrite <- Hl. reflexivity.
      Qed.

      (* C01 completeness: a result with quorum support is agreed unless another quorum result for
         the same work id is, or the candidate that represents its work id is cut by the cap *)
      Theorem agreed_complete r : (1 <= thr)%nat -> (thr <= support r obs)%nat ->
        exists r', r_wid r' = r_wid r /\ (thr <= support r' obs)%nat /\
                   (In r' agreed \/
                    ((limit <= length (cands pi_u thr v))%nat /\
                     forall y, In y agreed -> shuf (r_wid y) <= shuf (r_wid r'))).
      Proof.
        intros H1 Hs. assert (He : In (uid r, (r, support r obs)) v) by (apply support_entry; lia).
        apply (In_sorted_votes pi_u pi_perm) in He.
        destruct (pick_complete thr _ [] _ _ _ He Hs) as [[]|[r' [Hr' Hw]]].
        exists r'. split; [exact Hw|]. split.
        - apply (cands_quorum pi_u pi_perm) in Hr' as [u [c [Hi Hc]]].
          destruct (entry_support _ _ _ Hi) as [_ [Hsc _]]. lia.
        - apply (pset_cap pi_u). exact Hr'.
      Qed.
      Theorem agreed_complete_strict r :
        (forall a b, shuf a = shuf b -> a = b) -> (1 <= thr)%nat -> (thr <= support r obs)%nat ->
        exists r', r_wid r' = r_wid r /\ (thr <= support r' obs)%nat /\
                   (In r' agreed \/
                    (length agreed = limit /\ forall y, In y agreed -> shuf (r_wid y) < shuf (r_wid r'))).
      Proof.
        intros Sinj H1 Hs. assert (He : In (uid r, (r, support r obs)) v) by (apply support_entry; lia).
        apply (In_sorted_votes pi_u pi_perm) in He.
        destruct (pick_complete thr _ [] _ _ _ He Hs) as [[]|[r' [Hr' Hw]]].
        exists r'. split; [exact Hw|]. split.
        - apply (cands_quorum pi_u pi_perm) in Hr' as [u [c [Hi Hc]]].
          destruct (entry_support _ _ _ Hi) as [_ [Hsc _]]. lia.
        - apply (pset_cap_strict pi_u); assumption.
      Qed.
    End Round.
  End Inj.

  (* ---------------- independence of Go's map iteration order (C02) ---------------- *)
  Theorem pset_order_indep (pi1 pi2 : votes -> votes) thr limit v :
    (forall v, Permutation (pi1 v) v) -> (forall v, Permutation (pi2 v) v) ->
    NoDup (map fst v) ->
    pset shuf pi1 thr limit v = pset shuf pi2 thr limit v.
  Proof.
    intros P1 P2 N. unfold pset. f_equal. f_equal. f_equal.
    apply sort_by_perm_indep.
    - eapply Permutation_NoDup; [apply Permutation_map, Permutation_sym, P1 | exact N].
    - eapply Permutation_trans; [apply P1 | apply Permutation_sym, P2].
  Qed.
End P.
