(* Every subscriber present from the start receives every broadcast block exactly once, whatever the delays and the
   order in which the delivery goroutines complete. *)
From Coq Require Import List Arith PeanoNat Permutation Lia.
From Verif Require Import Model.SimFanout.
Import ListNotations.

Lemma filter_app' : forall (A : Type) (f : A -> bool) l1 l2, filter f (l1 ++ l2) = filter f l1 ++ filter f l2.
Proof. intros. apply filter_app. Qed.

Lemma nth_remove_perm : forall (A : Type) i (l : list A) d,
  nth_error l i = Some d -> Permutation l (d :: remove_nth i l).
Proof.
  intros A i. induction i as [|i IH]; intros l d H; destruct l as [|x t]; cbn in *; try discriminate.
  - inversion H; subst. apply Permutation_refl.
  - apply IH in H. eapply perm_trans; [apply perm_skip; exact H|]. apply perm_swap.
Qed.

Lemma filter_perm : forall (A : Type) (f : A -> bool) l1 l2, Permutation l1 l2 -> Permutation (filter f l1) (filter f l2).
Proof.
  intros A f l1 l2 H. induction H; cbn.
  - apply perm_nil.
  - destruct (f x); [apply perm_skip|]; assumption.
  - destruct (f x), (f y); try apply perm_swap; try apply Permutation_refl.
  - eapply perm_trans; eassumption.
Qed.

(* invariant: for a subscriber that joined before the first broadcast, received ++ owed is a rearrangement of what
   was broadcast *)
Definition finv (x : sub) (s : fstate) : Prop :=
  Permutation (recv_of s x ++ owed_to s x) (f_sent s) /\ (count_occ Nat.eq_dec (f_subs s) x = 1).

Lemma owed_broadcast : forall (subs : list sub) (x : sub) (b : blk),
  count_occ Nat.eq_dec subs x = 1 ->
  map snd (filter (fun d => Nat.eqb (fst d) x) (map (fun y => (y, b)) subs)) = [b].
Proof.
  induction subs as [|y t IH]; intros x b H; cbn in *; [discriminate|].
  destruct (Nat.eq_dec y x) as [->|Hne].
  - rewrite Nat.eqb_refl. cbn. f_equal.
    assert (H0 : count_occ Nat.eq_dec t x = 0) by lia.
    clear -H0. induction t as [|z t IH]; cbn in *; [reflexivity|].
    destruct (Nat.eq_dec z x); [discriminate|].
    destruct (Nat.eqb_spec z x); [contradiction|]. apply IH. exact H0.
  - destruct (Nat.eqb_spec y x); [contradiction|]. apply IH. exact H.
Qed.

Lemma finv_step : forall x s o,
  (forall y, o = FSubscribe y -> y <> x) -> finv x s -> finv x (fstep s o).
Proof.
  intros x s o Hsub [Hp Hc]. destruct o as [y|b|i]; unfold finv, recv_of, owed_to in *; cbn.
  - split; [exact Hp|]. rewrite count_occ_app.
    assert (Hyx : y <> x) by (apply Hsub; reflexivity).
    assert (H0 : count_occ Nat.eq_dec [y] x = 0) by (cbn; destruct (Nat.eq_dec y x); [contradiction|reflexivity]).
    unfold sub in *. rewrite H0. rewrite Nat.add_0_r. exact Hc.
  - split; [|exact Hc]. rewrite filter_app', map_app, owed_broadcast by exact Hc.
    rewrite app_assoc. apply Permutation_app_tail. exact Hp.
  - destruct (nth_error (f_flight s) i) as [d|] eqn:E; cbn; [|split; assumption].
    split; [|exact Hc]. rewrite filter_app', map_app.
    pose proof (nth_remove_perm _ _ _ _ E) as Hperm.
    apply (filter_perm _ (fun d0 => Nat.eqb (fst d0) x)) in Hperm.
    apply (Permutation_map snd) in Hperm. cbn [filter] in *.
    match type of Hperm with context [if ?c then _ else _] => destruct c end; cbn [map app] in *.
    + rewrite <- app_assoc. cbn [app].
      eapply perm_trans; [|exact Hp]. apply Permutation_app_head. symmetry. exact Hperm.
    + rewrite app_nil_r.
      eapply perm_trans; [|exact Hp]. apply Permutation_app_head. symmetry. exact Hperm.
Qed.

Theorem fanout_exactly_once : forall subs ops x,
  count_occ Nat.eq_dec subs x = 1 ->
  (forall y, In (FSubscribe y) ops -> y <> x) ->
  let s := frun subs ops in
  Permutation (recv_of s x ++ owed_to s x) (f_sent s).
Proof.
  intros subs ops x Hc Hs. cbv zeta. unfold frun.
  assert (H : finv x (finit subs)) by (split; [apply perm_nil | exact Hc]).
  revert H. generalize (finit subs). induction ops as [|o ops IH]; intros s H; cbn [fold_left].
  - exact (proj1 H).
  - apply IH.
    + intros y Hy. apply Hs. right. exact Hy.
    + apply finv_step; [|exact H]. intros y ->. apply Hs. left. reflexivity.
Qed.

(* once nothing is in flight, the subscriber has received exactly the broadcast blocks, each once *)
Corollary fanout_complete : forall subs ops x,
  count_occ Nat.eq_dec subs x = 1 ->
  (forall y, In (FSubscribe y) ops -> y <> x) ->
  f_flight (frun subs ops) = [] ->
  Permutation (recv_of (frun subs ops) x) (f_sent (frun subs ops)).
Proof.
  intros subs ops x Hc Hs Hf. pose proof (fanout_exactly_once subs ops x Hc Hs) as H. cbv zeta in H.
  unfold owed_to in H. rewrite Hf in H. cbn in H. rewrite app_nil_r in H. exact H.
Qed.

(* a delivery is always possible while something is in flight: nothing blocks a send for ever in the model *)
Lemma fanout_progress : forall s, f_flight s <> [] -> length (f_flight (fstep s (FDeliver 0))) < length (f_flight s).
Proof.
  intros [subs fl rc st] H. cbn in *. destruct fl as [|d t]; [contradiction|]. cbn. lia.
Qed.
