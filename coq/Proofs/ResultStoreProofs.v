(* Lemmas about the staging result store model (Model/ResultStore.v). *)
From Coq Require Import ZifyBool ZifyNat ZifyN.
From Verif Require Import Base.Util Model.ResultStore.
Open Scope Z_scope.

(* ------------------------------------------------------------------ basics *)

Lemma res_eqb_eq a b : res_eqb a b = true <-> a = b.
Proof.
  unfold res_eqb. destruct a, b; simpl. rewrite !andb_true_iff, !N.eqb_eq. split.
  - intros [[? ?] ?]; subst; reflexivity.
  - intro H; inversion H; auto.
Qed.

Lemma res_eqb_refl a : res_eqb a a = true.
Proof. apply res_eqb_eq; reflexivity. Qed.

Lemma splits_from_spec {A} (l p a b : list A) x :
  In (a, x, b) (splits_from p l) <-> exists l1, a = p ++ l1 /\ l = l1 ++ x :: b.
Proof.
  revert p. induction l as [|y l IH]; intro p; simpl.
  - split; [intros [] | intros [l1 [_ H]]; destruct l1; discriminate].
  - split.
    + intros [H | H].
      * inversion H; subst. exists []. rewrite app_nil_r. auto.
      * apply IH in H as [l1 [-> ->]]. exists (y :: l1). rewrite <- app_assoc. auto.
    + intros [l1 [-> H]]. destruct l1 as [|z l1]; simpl in H; inversion H; subst.
      * left. rewrite app_nil_r. reflexivity.
      * right. apply IH. exists l1. rewrite <- app_assoc. auto.
Qed.

Lemma splits_spec {A} (l a b : list A) x : In (a, x, b) (splits l) <-> l = a ++ x :: b.
Proof.
  unfold splits. rewrite splits_from_spec. split.
  - intros [l1 [-> ->]]. reflexivity.
  - intros ->. exists a. auto.
Qed.

Lemma not_removed_app w p q : not_removed w (p ++ q) = not_removed w p && not_removed w q.
Proof. unfold not_removed. apply forallb_app. Qed.

Lemma run_snoc fixed ttl tr x : run fixed ttl (tr ++ [x]) = step fixed ttl (run fixed ttl tr) x.
Proof. unfold run, run_from. rewrite fold_left_app. reflexivity. Qed.

Lemma run_from_app fixed ttl s a b :
  run_from fixed ttl s (a ++ b) = run_from fixed ttl (run_from fixed ttl s a) b.
Proof. unfold run_from. apply fold_left_app. Qed.

Lemma forget_app a b : forget (a ++ b) = forget a ++ forget b.
Proof. unfold forget. apply map_app. Qed.

Lemma lookup_Some_In w s e : lookup w s = Some e -> In e s /\ r_wid (e_res e) = w.
Proof.
  unfold lookup. intro H. apply find_some in H as [H1 H2]. split; [exact H1|].
  unfold has_wid in H2. apply N.eqb_eq in H2. exact H2.
Qed.

Lemma In_remove1 w s e : In e (remove1 w s) <-> In e s /\ r_wid (e_res e) <> w.
Proof.
  unfold remove1. rewrite filter_In. unfold has_wid. rewrite negb_true_iff, N.eqb_neq. tauto.
Qed.

Lemma lookup_remove1_same w s : lookup w (remove1 w s) = None.
Proof.
  unfold lookup, remove1. induction s as [|e s IH]; simpl; [reflexivity|].
  destruct (has_wid w e) eqn:E; simpl; [exact IH | rewrite E; exact IH].
Qed.

Lemma lookup_remove1_other w w' s : w <> w' -> lookup w (remove1 w' s) = lookup w s.
Proof.
  intro Hn. unfold lookup, remove1. induction s as [|e s IH]; simpl; [reflexivity|].
  destruct (has_wid w' e) eqn:E'; simpl.
  - assert (has_wid w e = false) as ->; [|exact IH].
    unfold has_wid in *. apply N.eqb_eq in E'. apply N.eqb_neq. congruence.
  - destruct (has_wid w e); [reflexivity | exact IH].
Qed.

Lemma lookup_app w a b : lookup w (a ++ b) = match lookup w a with Some e => Some e | None => lookup w b end.
Proof.
  unfold lookup. induction a as [|e a IH]; simpl; [reflexivity|]. destruct (has_wid w e); [reflexivity | exact IH].
Qed.

(* what add1 does, by cases *)
Definition stores (fixed : bool) (ttl now : Z) (s : store) (r : res) : bool :=
  match lookup (r_wid r) s with
  | None => true
  | Some e => (if fixed then expired ttl now e else false) || (r_blk (e_res e) <? r_blk r)%N
  end.

Lemma add1_cases fixed ttl now s r :
  add1 fixed ttl now s r = if stores fixed ttl now s r then remove1 (r_wid r) s ++ [mkEnt r now] else s.
Proof.
  unfold add1, stores. destruct (lookup (r_wid r) s) as [e|]; [|reflexivity].
  destruct (if fixed then expired ttl now e else false); simpl; [reflexivity|].
  destruct (r_blk (e_res e) <? r_blk r)%N; reflexivity.
Qed.

(* ------------------------------------------------------------------ at most one entry per work id *)

Definition wids (s : store) : list N := map (fun e => r_wid (e_res e)) s.

Lemma wids_remove1 w s : NoDup (wids s) -> NoDup (wids (remove1 w s)) /\ ~ In w (wids (remove1 w s)).
Proof.
  intro H. split.
  - unfold wids, remove1. induction s as [|e s IH]; simpl; [constructor|].
    inversion H; subst. destruct (has_wid w e); simpl; [apply IH; assumption|].
    constructor; [|apply IH; assumption].
    intro Hin. apply H2. apply in_map_iff in Hin as [e' [He' Hin]]. apply filter_In in Hin as [Hin _].
    apply in_map_iff. exists e'. auto.
  - intro Hin. apply in_map_iff in Hin as [e [He Hin]]. apply In_remove1 in Hin. tauto.
Qed.

Lemma step_nodup fixed ttl s x : NoDup (wids s) -> NoDup (wids (step fixed ttl s x)).
Proof.
  intro H. unfold step. destruct (snd x) as [r|w| |].
  - rewrite add1_cases. destruct (stores fixed ttl (fst x) s r); [|exact H].
    destruct (wids_remove1 (r_wid r) s H) as [H1 H2].
    unfold wids. rewrite map_app. simpl. apply NoDup_snoc; assumption.
  - apply (wids_remove1 w s H).
  - exact H.
  - unfold gc, wids. generalize (fst x) as now. intro now. induction s as [|e s IH]; simpl; [constructor|].
    inversion H; subst. destruct (expired ttl _ e); simpl; [apply IH; assumption|].
    constructor; [|apply IH; assumption].
    intro Hin. apply H2. apply in_map_iff in Hin as [e' [He' Hin]]. apply filter_In in Hin as [Hin _].
    apply in_map_iff. exists e'. auto.
Qed.

Lemma run_from_nodup fixed ttl tr s : NoDup (wids s) -> NoDup (wids (run_from fixed ttl s tr)).
Proof.
  revert s. induction tr as [|x tr IH]; intros s H; simpl; [exact H|].
  apply IH. apply step_nodup. exact H.
Qed.

Lemma run_nodup fixed ttl tr : NoDup (wids (run fixed ttl tr)).
Proof. apply run_from_nodup. constructor. Qed.

Lemma NoDup_map_filter {A B} (f : A -> B) (p : A -> bool) l : NoDup (map f l) -> NoDup (map f (filter p l)).
Proof.
  induction l as [|a l IH]; simpl; intro H; [constructor|]. inversion H; subst.
  destruct (p a); simpl; [|apply IH; assumption].
  constructor; [|apply IH; assumption].
  intro Hin. apply H2. apply in_map_iff in Hin as [a' [Ha' Hin]]. apply filter_In in Hin as [Hin _].
  apply in_map_iff. exists a'. auto.
Qed.

Lemma view_nodup_store ttl pi now s :
  Permutation (pi s) s -> NoDup (wids s) -> NoDup (map r_wid (view ttl pi now s)).
Proof.
  intros Hp Hn. unfold view. rewrite map_map.
  apply NoDup_map_filter. apply Permutation_NoDup with (l := wids s); [|exact Hn].
  unfold wids. apply Permutation_map. apply Permutation_sym. exact Hp.
Qed.

Lemma view_nodup fixed ttl pi now tr :
  Permutation (pi (run fixed ttl tr)) (run fixed ttl tr) ->
  NoDup (map r_wid (view ttl pi now (run fixed ttl tr))).
Proof. intro Hp. apply view_nodup_store; [exact Hp | apply run_nodup]. Qed.

Lemma In_view ttl pi now s r :
  Permutation (pi s) s ->
  (In r (view ttl pi now s) <-> exists e, In e s /\ e_res e = r /\ expired ttl now e = false).
Proof.
  intro Hp. unfold view. rewrite in_map_iff. split.
  - intros [e [He Hin]]. apply filter_In in Hin as [Hin Hx]. exists e. split; [|split; auto].
    + eapply Permutation_in; eauto.
    + apply negb_true_iff in Hx. exact Hx.
  - intros [e [Hin [He Hx]]]. exists e. split; [exact He|]. apply filter_In. split.
    + eapply Permutation_in; [apply Permutation_sym; exact Hp | exact Hin].
    + rewrite Hx. reflexivity.
Qed.

Lemma NoDup_wids_unique s e1 e2 :
  NoDup (wids s) -> In e1 s -> In e2 s -> r_wid (e_res e1) = r_wid (e_res e2) -> e1 = e2.
Proof.
  induction s as [|e s IH]; simpl; intros Hn H1 H2 Hw; [contradiction|].
  inversion Hn; subst. destruct H1 as [H1|H1], H2 as [H2|H2]; subst; auto.
  - exfalso. apply H3. unfold wids. apply in_map_iff. exists e2. auto.
  - exfalso. apply H3. unfold wids. apply in_map_iff. exists e1. auto.
Qed.

Lemma In_lookup s e : NoDup (wids s) -> In e s -> lookup (r_wid (e_res e)) s = Some e.
Proof.
  intros Hn Hin. destruct (lookup (r_wid (e_res e)) s) as [e'|] eqn:E.
  - apply lookup_Some_In in E as [H1 H2]. f_equal. apply (NoDup_wids_unique s); auto.
  - unfold lookup in E. eapply find_none in E; [|exact Hin]. unfold has_wid in E.
    rewrite N.eqb_refl in E. discriminate.
Qed.

(* ------------------------------------------------------------------ where entries come from *)

Definition src_inv (pre : otrace) (s : store) : Prop :=
  forall e, In e s -> exists p1 o0 p2,
    pre = p1 ++ (e_at e, Add1 (e_res e), o0) :: p2 /\ not_removed (r_wid (e_res e)) p2 = true.

Lemma src_inv_step fixed ttl pre s x :
  src_inv pre s -> src_inv (pre ++ [x]) (step fixed ttl s (fst x)).
Proof.
  intros Hinv e Hin.
  assert (Hold : In e s -> r_wid (e_res e) <> match o_op x with Rem1 w => w | _ => (r_wid (e_res e) + 1)%N end ->
                 exists p1 o0 p2, pre ++ [x] = p1 ++ (e_at e, Add1 (e_res e), o0) :: p2 /\
                                  not_removed (r_wid (e_res e)) p2 = true).
  { intros H Hw. destruct (Hinv e H) as [p1 [o0 [p2 [-> Hnr]]]].
    exists p1, o0, (p2 ++ [x]). split; [rewrite <- app_assoc; reflexivity|].
    rewrite not_removed_app, Hnr. simpl. rewrite andb_true_r.
    unfold removes. destruct (o_op x); try reflexivity.
    apply negb_true_iff, N.eqb_neq. congruence. }
  destruct x as [[t o] V]. unfold step in Hin. unfold o_op in Hold. simpl in *. destruct o as [r|w| |].
  - rewrite add1_cases in Hin. destruct (stores fixed ttl t s r).
    + apply in_app_iff in Hin as [Hin|Hin].
      * apply In_remove1 in Hin as [Hin _]. apply Hold; [exact Hin | lia].
      * destruct Hin as [<-|[]]. simpl. exists pre, V, []. split; reflexivity.
    + apply Hold; [exact Hin | lia].
  - apply In_remove1 in Hin as [Hin Hw]. apply Hold; assumption.
  - apply Hold; [exact Hin | lia].
  - unfold gc in Hin. apply filter_In in Hin as [Hin _]. apply Hold; [exact Hin | lia].
Qed.

Lemma src_inv_run fixed ttl pre : src_inv pre (run fixed ttl (forget pre)).
Proof.
  induction pre as [|x pre IH] using rev_ind.
  - intros e [].
  - rewrite forget_app. simpl. rewrite run_snoc. apply src_inv_step. exact IH.
Qed.

Lemma view_sound fixed ttl pi pre t :
  let s := run fixed ttl (forget pre) in
  Permutation (pi s) s -> view_sound_at ttl pre t (view ttl pi t s).
Proof.
  intros s Hp r Hin. apply In_view in Hin as [e [Hin [He Hx]]]; [|exact Hp].
  destruct (src_inv_run fixed ttl pre e Hin) as [p1 [o0 [p2 [Hpre Hnr]]]].
  subst r. exists p1, (e_at e), o0, p2. split; [exact Hpre|]. split; [|exact Hnr].
  unfold expired in Hx. lia.
Qed.

(* ------------------------------------------------------------------ a live entry is only replaced by a higher block *)

Lemma step_keeps fixed ttl s x w e :
  removes w (snd x) = false -> lookup w s = Some e -> expired ttl (fst x) e = false ->
  exists e', lookup w (step fixed ttl s x) = Some e' /\
             (e' = e \/ ((r_blk (e_res e) < r_blk (e_res e'))%N /\ e_at e' = fst x /\ r_wid (e_res e') = w)).
Proof.
  intros Hr Hl Hx. unfold step. destruct (snd x) as [r|w'| |]; simpl in Hr.
  - rewrite add1_cases. destruct (N.eq_dec (r_wid r) w) as [Hw|Hw].
    + unfold stores. rewrite Hw, Hl, Hx.
      replace (if fixed then false else false) with false by (destruct fixed; reflexivity). simpl.
      destruct (r_blk (e_res e) <? r_blk r)%N eqn:Hb.
      * exists (mkEnt r (fst x)). split.
        -- rewrite lookup_app, lookup_remove1_same. unfold lookup. simpl. unfold has_wid. simpl.
           rewrite Hw, N.eqb_refl. reflexivity.
        -- right. simpl. apply N.ltb_lt in Hb. auto.
      * exists e. auto.
    + destruct (stores fixed ttl (fst x) s r); [|exists e; auto].
      exists e. split; [|auto]. rewrite lookup_app, lookup_remove1_other, Hl by congruence. reflexivity.
  - exists e. split; [|auto]. apply N.eqb_neq in Hr. rewrite lookup_remove1_other by congruence. exact Hl.
  - exists e. auto.
  - exists e. split; [|auto]. unfold gc, lookup in *. clear Hr. induction s as [|a s IH]; simpl in *; [discriminate|].
    destruct (has_wid w a) eqn:Ha.
    + inversion Hl; subst. rewrite Hx. simpl. rewrite Ha. reflexivity.
    + destruct (expired ttl (fst x) a); simpl; [|rewrite Ha]; apply IH; exact Hl.
Qed.

Lemma supersedes_refl r : supersedes r r.
Proof. split; auto. Qed.

Lemma supersedes_trans a b c : supersedes a b -> supersedes b c -> supersedes a c.
Proof.
  intros [H1 H2] [H3 H4]. split; [congruence|].
  destruct H2 as [->|H2], H4 as [->|H4]; auto. right. lia.
Qed.

Lemma forward fixed ttl w t lo (seg : otrace) : forall s e,
  lookup w s = Some e -> lo <= e_at e -> t - lo <= ttl -> not_removed w seg = true ->
  (forall x, In x seg -> lo <= o_time x <= t) ->
  exists e', lookup w (run_from fixed ttl s (forget seg)) = Some e' /\
             supersedes (e_res e) (e_res e') /\ lo <= e_at e'.
Proof.
  induction seg as [|x seg IH]; intros s e Hl Hlo Ht Hnr Htime; simpl.
  - exists e. split; [exact Hl|]. split; [apply supersedes_refl | lia].
  - simpl in Hnr. apply andb_true_iff in Hnr as [Hnr1 Hnr2]. apply negb_true_iff in Hnr1.
    assert (Hx : lo <= o_time x <= t) by (apply Htime; left; reflexivity).
    destruct (step_keeps fixed ttl s (fst x) w e) as [e1 [Hl1 He1]]; [exact Hnr1 | exact Hl | |].
    { unfold expired. unfold o_time in Hx. lia. }
    destruct (IH (step fixed ttl s (fst x)) e1) as [e' [Hl' [Hs' Hat']]]; [exact Hl1 | | exact Ht | exact Hnr2 | |].
    + destruct He1 as [->|[_ [Hat _]]]; [exact Hlo|]. unfold o_time in Hx. lia.
    + intros y Hy. apply Htime. right. exact Hy.
    + exists e'. split; [exact Hl'|]. split; [|exact Hat'].
      eapply supersedes_trans; [|exact Hs'].
      destruct He1 as [->|[Hb [_ Hw]]]; [apply supersedes_refl|].
      split; [|right; exact Hb]. apply lookup_Some_In in Hl as [_ Hl]. congruence.
Qed.

(* ------------------------------------------------------------------ time *)

Definition time_sorted (tr : trace) : Prop :=
  forall l1 a l2 b l3, tr = l1 ++ a :: l2 ++ b :: l3 -> fst a <= fst b.

Lemma sorted_time_lb lo tr : sorted_time lo tr = true -> forall x, In x tr -> lo <= fst x.
Proof.
  revert lo. induction tr as [|y tr IH]; intros lo H x Hin; simpl in *; [contradiction|].
  destruct (lo <=? fst y) eqn:E; [|discriminate]. apply Z.leb_le in E.
  destruct Hin as [->|Hin]; [exact E|]. specialize (IH _ H x Hin). lia.
Qed.

Lemma sorted_time_sorted lo tr : sorted_time lo tr = true -> time_sorted tr.
Proof.
  revert lo. induction tr as [|y tr IH]; intros lo H l1 a l2 b l3 Heq.
  - destruct l1; discriminate.
  - simpl in H. destruct (lo <=? fst y); [|discriminate].
    destruct l1 as [|z l1]; simpl in Heq; inversion Heq; subst.
    + apply (sorted_time_lb _ _ H). apply in_or_app. right. left. reflexivity.
    + eapply IH; eauto.
Qed.

Lemma time_sorted_app_l a b : time_sorted (a ++ b) -> time_sorted a.
Proof.
  intros H l1 x l2 y l3 Heq. apply (H l1 x l2 y (l3 ++ b)). rewrite Heq.
  repeat (rewrite <- app_assoc; simpl). reflexivity.
Qed.

Lemma forget_split (ot : otrace) p1 x p2 : ot = p1 ++ x :: p2 -> forget ot = forget p1 ++ fst x :: forget p2.
Proof. intros ->. rewrite forget_app. reflexivity. Qed.

(* in a sorted trace p1 ++ x :: p2 ++ [y], every element of p2 lies between x and y *)
Lemma sorted_between (p1 p2 : otrace) x (y : Z * op) :
  time_sorted (forget (p1 ++ x :: p2) ++ [y]) ->
  o_time x <= fst y /\ forall z, In z p2 -> o_time x <= o_time z <= fst y.
Proof.
  intro H. rewrite forget_app in H. simpl in H. split.
  - apply (H (forget p1) (fst x) (forget p2) y []). rewrite <- app_assoc. reflexivity.
  - intros z Hz. apply in_split in Hz as [u [v ->]]. rewrite forget_app in H. simpl in H. split.
    + apply (H (forget p1) (fst x) (forget u) (fst z) (forget v ++ [y])).
      repeat (rewrite <- app_assoc; simpl). reflexivity.
    + apply (H (forget p1 ++ fst x :: forget u) (fst z) (forget v) y []).
      repeat (rewrite <- app_assoc; simpl). reflexivity.
Qed.

(* ------------------------------------------------------------------ kept *)

Lemma undominated_stores fixed ttl p1 t0 r :
  undominated ttl p1 t0 r ->
  (fixed = true \/ forall e, lookup (r_wid r) (run fixed ttl (forget p1)) = Some e -> expired ttl t0 e = false) ->
  stores fixed ttl t0 (run fixed ttl (forget p1)) r = true.
Proof.
  intros Hu Hf. unfold stores. destruct (lookup (r_wid r) (run fixed ttl (forget p1))) as [e|] eqn:El; [|reflexivity].
  destruct (lookup_Some_In _ _ _ El) as [Hin Hw].
  destruct (src_inv_run fixed ttl p1 e Hin) as [a1 [ok [a2 [Hp Hnr]]]].
  destruct (Hu a1 (e_at e) (e_res e) ok a2 Hp Hw) as [Hb|[Hr|Ht]].
  - apply N.ltb_lt in Hb. rewrite Hb. apply orb_true_r.
  - rewrite Hw in Hnr. congruence.
  - assert (Hx : expired ttl t0 e = true) by (unfold expired; lia).
    destruct Hf as [->|Hf]; [rewrite Hx; reflexivity|]. rewrite (Hf e eq_refl) in Hx. discriminate.
Qed.

Lemma kept_gen fixed ttl pi pre t p1 t0 r o0 p2 :
  let s := run fixed ttl (forget pre) in
  0 <= ttl -> time_sorted (forget pre ++ [(t, View)]) -> Permutation (pi s) s ->
  pre = p1 ++ (t0, Add1 r, o0) :: p2 -> t - t0 <= ttl -> not_removed (r_wid r) p2 = true ->
  undominated ttl p1 t0 r ->
  (fixed = true \/ forall e, lookup (r_wid r) (run fixed ttl (forget p1)) = Some e -> expired ttl t0 e = false) ->
  exists r', In r' (view ttl pi t s) /\ supersedes r r'.
Proof.
  intros s Httl Hs Hp Hpre Ht Hnr Hu Hf.
  pose proof (undominated_stores fixed ttl p1 t0 r Hu Hf) as Hst.
  assert (Hrun : s = run_from fixed ttl (step fixed ttl (run fixed ttl (forget p1)) (t0, Add1 r)) (forget p2)).
  { unfold s. rewrite Hpre, forget_app. simpl. unfold run. rewrite run_from_app. reflexivity. }
  set (s2 := step fixed ttl (run fixed ttl (forget p1)) (t0, Add1 r)) in *.
  assert (Hl2 : lookup (r_wid r) s2 = Some (mkEnt r t0)).
  { unfold s2, step. simpl. rewrite add1_cases, Hst, lookup_app, lookup_remove1_same.
    unfold lookup. simpl. unfold has_wid. simpl. rewrite N.eqb_refl. reflexivity. }
  rewrite Hpre in Hs. destruct (sorted_between _ _ _ _ Hs) as [Hb1 Hb2]. unfold o_time in Hb1, Hb2. simpl in *.
  destruct (forward fixed ttl (r_wid r) t t0 p2 s2 (mkEnt r t0)) as [e' [Hl' [Hs' Hat']]];
    [exact Hl2 | simpl; lia | exact Ht | exact Hnr | exact Hb2 |].
  exists (e_res e'). split; [|exact Hs'].
  apply In_view; [exact Hp|]. exists e'. rewrite Hrun. split; [apply (lookup_Some_In _ _ _ Hl')|].
  split; [reflexivity|]. unfold expired. lia.
Qed.

Lemma view_kept ttl pi pre t :
  let s := run true ttl (forget pre) in
  0 <= ttl -> time_sorted (forget pre ++ [(t, View)]) -> Permutation (pi s) s ->
  view_kept_at ttl pre t (view ttl pi t s).
Proof.
  intros s Httl Hs Hp p1 t0 r o0 p2 Hpre Ht Hnr Hu.
  eapply kept_gen; eauto.
Qed.

(* the pinned commit: same statement needs "no expired, uncollected entry for that work id" *)
Lemma view_kept_old ttl pi pre t p1 t0 r o0 p2 :
  let s := run false ttl (forget pre) in
  0 <= ttl -> time_sorted (forget pre ++ [(t, View)]) -> Permutation (pi s) s ->
  pre = p1 ++ (t0, Add1 r, o0) :: p2 -> t - t0 <= ttl -> not_removed (r_wid r) p2 = true ->
  undominated ttl p1 t0 r ->
  (forall e, lookup (r_wid r) (run false ttl (forget p1)) = Some e -> expired ttl t0 e = false) ->
  exists r', In r' (view ttl pi t s) /\ supersedes r r'.
Proof. intros. eapply kept_gen; eauto. Qed.

(* ------------------------------------------------------------------ views never go down *)

Lemma view_mono fixed ttl pi pre t :
  let s := run fixed ttl (forget pre) in
  0 <= ttl -> time_sorted (forget pre ++ [(t, View)]) -> Permutation (pi s) s ->
  forall q1 t' V' q2 r1 pi',
    pre = q1 ++ (t', View, V') :: q2 ->
    Permutation (pi' (run fixed ttl (forget q1))) (run fixed ttl (forget q1)) ->
    V' = view ttl pi' t' (run fixed ttl (forget q1)) ->
    In r1 V' -> not_removed (r_wid r1) q2 = true -> all_witnesses_live ttl q1 t r1 ->
    exists r2, In r2 (view ttl pi t s) /\ supersedes r1 r2.
Proof.
  intros s Httl Hs Hp q1 t' V' q2 r1 pi' Hpre Hp' HV Hin Hnr Hlive.
  rewrite HV in Hin. apply In_view in Hin as [e [Hin [He Hx]]]; [|exact Hp'].
  destruct (src_inv_run fixed ttl q1 e Hin) as [a1 [ok [a2 [Hq Hnr1]]]]. subst r1.
  pose proof (Hlive a1 (e_at e) ok a2 Hq Hnr1) as Hat.
  assert (Hl : lookup (r_wid (e_res e)) (run fixed ttl (forget q1)) = Some e) by (apply In_lookup; [apply run_nodup | exact Hin]).
  assert (Hrun : s = run_from fixed ttl (run fixed ttl (forget q1)) (forget ((t', View, V') :: q2))).
  { unfold s. rewrite Hpre, forget_app. unfold run. rewrite run_from_app. reflexivity. }
  destruct (forward fixed ttl (r_wid (e_res e)) t (e_at e) ((t', View, V') :: q2) _ e Hl) as [e' [Hl' [Hs' Hat']]];
    [lia | lia | simpl; exact Hnr | |].
  { intros z Hz. rewrite Hpre, Hq in Hs.
    replace ((a1 ++ (e_at e, Add1 (e_res e), ok) :: a2) ++ (t', View, V') :: q2)
      with (a1 ++ (e_at e, Add1 (e_res e), ok) :: (a2 ++ (t', View, V') :: q2)) in Hs
      by (rewrite <- app_assoc; reflexivity).
    destruct (sorted_between _ _ _ _ Hs) as [_ Hb]. unfold o_time in Hb at 1. simpl in Hb.
    apply Hb. apply in_or_app. right. exact Hz. }
  exists (e_res e'). split; [|exact Hs'].
  apply In_view; [exact Hp|]. exists e'. rewrite Hrun. split; [apply (lookup_Some_In _ _ _ Hl')|].
  split; [reflexivity|]. unfold expired. lia.
Qed.

(* ------------------------------------------------------------------ gc changes no view (repaired Add) *)

Definition live (ttl now : Z) (s : store) : store := filter (fun e => negb (expired ttl now e)) s.

Lemma filter_filter_imp {A} (p q : A -> bool) l :
  (forall x, p x = true -> q x = true) -> filter p (filter q l) = filter p l.
Proof.
  intro H. induction l as [|a l IH]; simpl; [reflexivity|].
  destruct (q a) eqn:Q; simpl.
  - destruct (p a); [f_equal|]; exact IH.
  - destruct (p a) eqn:P; [apply H in P; congruence | exact IH].
Qed.

Lemma filter_comm {A} (p q : A -> bool) l : filter p (filter q l) = filter q (filter p l).
Proof.
  induction l as [|a l IH]; simpl; [reflexivity|].
  destruct (q a) eqn:Q, (p a) eqn:P; simpl; rewrite ?Q, ?P; [f_equal| | |]; exact IH.
Qed.

Lemma Permutation_filter' {A} (p : A -> bool) l l' : Permutation l l' -> Permutation (filter p l) (filter p l').
Proof.
  induction 1; simpl.
  - constructor.
  - destruct (p x); [constructor|]; assumption.
  - destruct (p x), (p y); try constructor; try apply Permutation_refl. 
  - eapply Permutation_trans; eassumption.
Qed.

Lemma live_later ttl lo t s : lo <= t -> live ttl t (live ttl lo s) = live ttl t s.
Proof.
  intro H. unfold live. apply filter_filter_imp. intros e He. unfold expired in *. lia.
Qed.

Lemma wids_live_nodup ttl t s : NoDup (wids s) -> NoDup (wids (live ttl t s)).
Proof. intro H. unfold wids, live. apply NoDup_map_filter. exact H. Qed.

Lemma stores_live ttl t s r :
  NoDup (wids s) ->
  stores true ttl t s r = match lookup (r_wid r) (live ttl t s) with
                          | None => true
                          | Some e => (r_blk (e_res e) <? r_blk r)%N
                          end.
Proof.
  intro Hn. unfold stores. destruct (lookup (r_wid r) s) as [e|] eqn:El.
  - destruct (lookup_Some_In _ _ _ El) as [Hin Hw].
    destruct (expired ttl t e) eqn:Hx; simpl.
    + destruct (lookup (r_wid r) (live ttl t s)) as [e'|] eqn:El'; [|reflexivity].
      destruct (lookup_Some_In _ _ _ El') as [Hin' Hw']. unfold live in Hin'. apply filter_In in Hin' as [Hin' Hx'].
      assert (e' = e) by (apply (NoDup_wids_unique s); auto; congruence). subst e'.
      rewrite Hx in Hx'. discriminate.
    + assert (Hl : lookup (r_wid (e_res e)) (live ttl t s) = Some e).
      { apply In_lookup; [apply wids_live_nodup; exact Hn|]. unfold live. apply filter_In. rewrite Hx. auto. }
      rewrite Hw in Hl. rewrite Hl. reflexivity.
  - destruct (lookup (r_wid r) (live ttl t s)) as [e'|] eqn:El'; [|reflexivity].
    destruct (lookup_Some_In _ _ _ El') as [Hin' Hw']. unfold live in Hin'. apply filter_In in Hin' as [Hin' _].
    unfold lookup in El. eapply find_none in El; [|exact Hin']. unfold has_wid in El. rewrite Hw', N.eqb_refl in El. discriminate.
Qed.

Lemma live_put ttl t s r : 0 <= ttl ->
  live ttl t (remove1 (r_wid r) s ++ [mkEnt r t]) = remove1 (r_wid r) (live ttl t s) ++ [mkEnt r t].
Proof.
  intro H. unfold live, remove1. rewrite filter_app. simpl.
  assert (expired ttl t (mkEnt r t) = false) as -> by (unfold expired; simpl; lia). simpl.
  f_equal. apply filter_comm.
Qed.

Definition sim (ttl t : Z) (s s' : store) : Prop :=
  live ttl t s = live ttl t s' /\ NoDup (wids s) /\ NoDup (wids s').

Lemma sim_later ttl lo t s s' : lo <= t -> sim ttl lo s s' -> sim ttl t s s'.
Proof.
  intros H [H1 [H2 H3]]. split; [|auto].
  rewrite <- (live_later ttl lo t s H), <- (live_later ttl lo t s' H), H1. reflexivity.
Qed.

Lemma sim_step ttl s s' x : 0 <= ttl -> is_gc x = false ->
  sim ttl (fst x) s s' -> sim ttl (fst x) (step true ttl s x) (step true ttl s' x).
Proof.
  intros Httl Hg [H1 [H2 H3]]. split; [|split; apply step_nodup; assumption].
  unfold step. unfold is_gc in Hg. destruct (snd x) as [r|w| |]; try discriminate.
  - rewrite !add1_cases, !stores_live, H1 by assumption.
    destruct (match lookup (r_wid r) (live ttl (fst x) s') with Some e => _ | None => true end); [|exact H1].
    rewrite !live_put, H1 by assumption. reflexivity.
  - unfold live, remove1 in *. rewrite filter_comm, H1, filter_comm. reflexivity.
  - exact H1.
Qed.

Lemma sim_gc_left ttl s s' x : is_gc x = true ->
  sim ttl (fst x) s s' -> sim ttl (fst x) (step true ttl s x) s'.
Proof.
  intros Hg [H1 [H2 H3]]. split; [|split; [apply step_nodup|]; assumption].
  unfold step. unfold is_gc in Hg. destruct (snd x); try discriminate.
  rewrite <- H1. unfold live, gc. apply filter_filter_imp. auto.
Qed.

Lemma sim_view ttl t pi pi' s s' :
  Permutation (pi s) s -> Permutation (pi' s') s' -> sim ttl t s s' ->
  Permutation (view ttl pi t s) (view ttl pi' t s').
Proof.
  intros Hp Hp' [H1 _]. unfold view. apply Permutation_map.
  eapply Permutation_trans; [apply Permutation_filter'; exact Hp|].
  eapply Permutation_trans; [|apply Permutation_filter'; apply Permutation_sym; exact Hp'].
  unfold live in H1. rewrite H1. apply Permutation_refl.
Qed.

Lemma gc_invisible_from ttl pi pi' tr : 0 <= ttl ->
  (forall k l, Permutation (pi k l) l) -> (forall k l, Permutation (pi' k l) l) ->
  forall lo k k' s s', sorted_time lo tr = true -> sim ttl lo s s' ->
  Forall2 (@Permutation res) (views_from true ttl pi k s tr) (views_from true ttl pi' k' s' (strip_gc tr)).
Proof.
  intros Httl Hpi Hpi'. induction tr as [|x tr IH]; intros lo k k' s s' Hs Hsim; simpl; [constructor|].
  simpl in Hs. destruct (lo <=? fst x) eqn:E; [|discriminate]. apply Z.leb_le in E.
  pose proof (sim_later ttl lo (fst x) s s' E Hsim) as Hsim'.
  destruct (is_gc x) eqn:Hg; simpl.
  - unfold is_gc in Hg. destruct (snd x) eqn:Eo; try discriminate.
    apply (IH (fst x)); [exact Hs|]. apply sim_gc_left; [unfold is_gc; rewrite Eo; reflexivity | exact Hsim'].
  - pose proof (sim_step ttl s s' x Httl Hg Hsim') as Hnext.
    unfold is_gc in Hg. destruct (snd x) eqn:Eo; try discriminate.
    + apply (IH (fst x)); assumption.
    + apply (IH (fst x)); assumption.
    + constructor; [apply sim_view; auto | apply (IH (fst x)); assumption].
Qed.

Lemma time_sorted_cons_inv y tr : time_sorted (y :: tr) -> time_sorted tr /\ forall x, In x tr -> fst y <= fst x.
Proof.
  intro H. split.
  - intros l1 a l2 b l3 Heq. apply (H (y :: l1) a l2 b l3). rewrite Heq. reflexivity.
  - intros x Hin. apply in_split in Hin as [u [v ->]]. apply (H [] y u x v). reflexivity.
Qed.

Lemma time_sorted_bool tr : time_sorted tr -> forall lo, (forall x, In x tr -> lo <= fst x) -> sorted_time lo tr = true.
Proof.
  induction tr as [|y tr IH]; intros H lo Hlo; simpl; [reflexivity|].
  assert (lo <=? fst y = true) as -> by (apply Z.leb_le, Hlo; left; reflexivity).
  apply time_sorted_cons_inv in H as [H1 H2]. apply IH; assumption.
Qed.

Lemma gc_invisible ttl pi pi' tr : 0 <= ttl ->
  (forall k l, Permutation (pi k l) l) -> (forall k l, Permutation (pi' k l) l) ->
  time_sorted tr ->
  Forall2 (@Permutation res) (views true ttl pi tr) (views true ttl pi' (strip_gc tr)).
Proof.
  intros Httl Hpi Hpi' Hs. unfold views.
  apply (gc_invisible_from ttl pi pi' tr Httl Hpi Hpi' (match tr with [] => 0 | x :: _ => fst x end)).
  - apply time_sorted_bool; [exact Hs|]. destruct tr as [|y tr]; [intros x []|].
    intros x [<-|Hin]; [lia|]. apply time_sorted_cons_inv in Hs as [_ Hs]. apply Hs. exact Hin.
  - split; [reflexivity | split; constructor].
Qed.

(* ------------------------------------------------------------------ the pinned commit's Add *)

Lemma kept_old_refuted :
  exists ttl pre t, 0 <= ttl /\ time_sorted (forget pre ++ [(t, View)]) /\
    ~ view_kept_at ttl pre t (view ttl (fun l => l) t (run false ttl (forget pre))).
Proof.
  exists 300, [(0, Add1 (mkRes 1 10 1), []); (301, Add1 (mkRes 1 10 2), [])], 302.
  split; [lia|]. split.
  - apply (sorted_time_sorted 0). reflexivity.
  - intro H.
    destruct (H [(0, Add1 (mkRes 1 10 1), [])] 301 (mkRes 1 10 2) [] []) as [r' [Hin _]];
      [reflexivity | lia | reflexivity | | exact Hin].
    intros a1 tk rk ok a2 Heq _. right. right.
    destruct a1 as [|z a1]; simpl in Heq; inversion Heq; [lia|]. destruct a1; discriminate.
Qed.

Lemma gc_visible_old :
  exists ttl tr, 0 <= ttl /\ time_sorted tr /\
    ~ Forall2 (@Permutation res) (views false ttl (fun _ l => l) tr) (views false ttl (fun _ l => l) (strip_gc tr)).
Proof.
  exists 300, [(0, Add1 (mkRes 1 10 1)); (301, GC); (301, Add1 (mkRes 1 10 2)); (302, View)].
  split; [lia|]. split; [apply (sorted_time_sorted 0); reflexivity|].
  vm_compute. intro H. inversion H; subst. apply Permutation_length in H3. discriminate.
Qed.

(* ------------------------------------------------------------------ checker K is sound *)

Lemma supersedes_b_sound r r' : supersedes_b r r' = true -> supersedes r r'.
Proof.
  unfold supersedes_b, supersedes. rewrite andb_true_iff, orb_true_iff, N.eqb_eq, res_eqb_eq, N.ltb_lt. tauto.
Qed.

Lemma undominated_complete ttl p1 t0 r : undominated ttl p1 t0 r -> undominated_b ttl p1 t0 r = true.
Proof.
  intro H. unfold undominated_b. apply forallb_forall. intros [[a1 x] a2] Hin.
  apply splits_spec in Hin. destruct x as [[tk o] ok]. unfold o_op, o_time. simpl.
  destruct o as [rk| | |]; try reflexivity.
  destruct (N.eqb (r_wid rk) (r_wid r)) eqn:Ew; [|reflexivity]. apply N.eqb_eq in Ew.
  destruct (H a1 tk rk ok a2 Hin Ew) as [Hb|[Hr|Ht]].
  - apply N.ltb_lt in Hb. rewrite Hb. reflexivity.
  - rewrite Hr. simpl. destruct (r_blk rk <? r_blk r)%N; reflexivity.
  - destruct (r_blk rk <? r_blk r)%N; [reflexivity|]. destruct (negb (not_removed (r_wid r) a2)); [reflexivity|].
    apply Z.gtb_lt. lia.
Qed.

Lemma all_witnesses_live_complete ttl q1 t r1 :
  all_witnesses_live ttl q1 t r1 -> all_witnesses_live_b ttl q1 t r1 = true.
Proof.
  intro H. unfold all_witnesses_live_b. apply forallb_forall. intros [[a1 x] a2] Hin.
  apply splits_spec in Hin. destruct x as [[t0 o] o0]. unfold o_op, o_time. simpl.
  destruct o as [r0| | |]; try reflexivity.
  destruct (res_eqb r0 r1) eqn:Er; [|reflexivity]. apply res_eqb_eq in Er. subst r0.
  destruct (not_removed (r_wid r1) a2) eqn:Hnr; [|reflexivity].
  apply Z.leb_le. eapply H; eauto.
Qed.

Lemma existsb_supersedes r V : existsb (supersedes_b r) V = true -> exists r', In r' V /\ supersedes r r'.
Proof.
  intro H. apply existsb_exists in H as [r' [Hin Hs]]. exists r'. split; [exact Hin | apply supersedes_b_sound; exact Hs].
Qed.

Lemma sound_b_sound ttl pre t V : sound_b ttl pre t V = true -> view_sound_at ttl pre t V.
Proof.
  intros H r Hin. unfold sound_b in H. rewrite forallb_forall in H. specialize (H r Hin).
  apply existsb_exists in H as [[[p1 x] p2] [Hs H]]. apply splits_spec in Hs.
  destruct x as [[t0 o] o0]. unfold o_op, o_time in H. simpl in H.
  destruct o as [r0| | |]; try discriminate.
  destruct (res_eqb r0 r) eqn:Er; [|discriminate]. apply res_eqb_eq in Er. subst r0.
  destruct (t - t0 <=? ttl) eqn:Et; [|discriminate]. apply Z.leb_le in Et.
  exists p1, t0, o0, p2. auto.
Qed.

Lemma kept_b_sound ttl pre t V : kept_b ttl pre t V = true -> view_kept_at ttl pre t V.
Proof.
  intros H p1 t0 r o0 p2 Hpre Ht Hnr Hu. unfold kept_b in H. rewrite forallb_forall in H.
  specialize (H (p1, (t0, Add1 r, o0), p2)). unfold o_op, o_time in H. simpl in H.
  apply Z.leb_le in Ht. rewrite Ht, Hnr, (undominated_complete _ _ _ _ Hu) in H.
  apply existsb_supersedes. apply H. apply splits_spec. exact Hpre.
Qed.

Lemma mono_b_sound ttl pre t V : mono_b ttl pre t V = true -> view_mono_at ttl pre t V.
Proof.
  intros H q1 t' V' q2 r1 Hpre Hin Hnr Hl. unfold mono_b in H. rewrite forallb_forall in H.
  specialize (H (q1, (t', View, V'), q2)). unfold o_op in H. simpl in H.
  assert (Hs : In (q1, (t', View, V'), q2) (splits pre)) by (apply splits_spec; exact Hpre).
  specialize (H Hs). rewrite forallb_forall in H. specialize (H r1 Hin).
  rewrite Hnr, (all_witnesses_live_complete _ _ _ _ Hl) in H. apply existsb_supersedes. exact H.
Qed.

Lemma C10_check_sound ttl ot : C10_check ttl ot = true -> C10_spec ttl ot.
Proof.
  intros H pre t V post Hot. unfold C10_check in H. rewrite forallb_forall in H.
  specialize (H (pre, (t, View, V), post)). unfold o_op, o_time in H. simpl in H.
  assert (Hs : In (pre, (t, View, V), post) (splits ot)) by (apply splits_spec; exact Hot).
  specialize (H Hs). unfold view_ok_b in H.
  destruct (nodupb (map r_wid V)) eqn:H1; [|discriminate].
  destruct (sound_b ttl pre t V) eqn:H2; [|discriminate].
  destruct (kept_b ttl pre t V) eqn:H3; [|discriminate].
  split; [apply nodupb_NoDup; exact H1|]. split; [apply sound_b_sound; exact H2|].
  split; [apply kept_b_sound; exact H3 | apply mono_b_sound; exact H].
Qed.

(* ------------------------------------------------------------------ the linearizability search is sound *)

Section LinSound.
  Variables (St Op Ret : Type).
  Variable lstep : St -> Op -> option (St * Ret).
  Variable ret_ok : Ret -> Ret -> bool.
  Notation ev := (ev Op Ret).

  Lemma picks_from_perm (l1 l : list ev) e rest :
    In (e, rest) (picks_from Op Ret l1 l) -> Permutation (e :: rest) (l1 ++ l).
  Proof.
    revert l1. induction l as [|x l IH]; intros l1 H; simpl in H; [contradiction|].
    destruct H as [H|H].
    - inversion H; subst. apply Permutation_middle.
    - apply IH in H. rewrite <- app_assoc in H. exact H.
  Qed.

  Fixpoint ordered (order : list ev) : Prop :=
    match order with
    | [] => True
    | e :: rest => (forall b, In b rest -> ~ (ev_res b < ev_inv e)%N) /\ ordered rest
    end.

  Lemma ordered_respects order : ordered order -> respects_rt Op Ret order.
  Proof.
    induction order as [|e order IH]; intros H l1 a l2 b l3 Heq.
    - destruct l1; discriminate.
    - destruct H as [H1 H2]. destruct l1 as [|z l1]; simpl in Heq; inversion Heq; subst.
      + apply H1. apply in_or_app. right. left. reflexivity.
      + eapply IH; eauto.
  Qed.

  Lemma minimal_spec e rest : minimal Op Ret e rest = true -> forall b, In b rest -> ~ (ev_res b < ev_inv e)%N.
  Proof.
    unfold minimal. rewrite forallb_forall. intros H b Hin Hlt. specialize (H b Hin).
    apply negb_true_iff, N.ltb_ge in H. lia.
  Qed.

  Definition try_with (rec : St -> list ev -> N -> verdict * N) (s : St) :=
    fix try (cs : list (ev * list ev)) (budget : N) {struct cs} : verdict * N :=
      match cs with
      | [] => (NotLin, budget)
      | (e, rest) :: cs' =>
          if (budget =? 0)%N then (OutOfFuel, 0%N)
          else if minimal Op Ret e rest then
            match lstep s (ev_op e) with
            | Some (s', r) =>
                if ret_ok r (ev_ret e) then
                  match rec s' rest (budget - 1)%N with
                  | (Lin, b) => (Lin, b)
                  | (OutOfFuel, b) => (OutOfFuel, b)
                  | (NotLin, b) => try cs' b
                  end
                else try cs' budget
            | None => try cs' budget
            end
          else try cs' budget
      end.

  Lemma lin_search_S d s e0 pend' budget :
    lin_search St Op Ret lstep ret_ok (S d) s (e0 :: pend') budget =
    try_with (lin_search St Op Ret lstep ret_ok d) s (picks Op Ret (e0 :: pend')) budget.
  Proof. reflexivity. Qed.

  Lemma lin_search_sound d : forall s pend budget b,
    lin_search St Op Ret lstep ret_ok d s pend budget = (Lin, b) ->
    exists order, Permutation order pend /\ ordered order /\ seq_accepts St Op Ret lstep ret_ok s order.
  Proof.
    induction d as [|d IH]; intros s pend budget b H.
    - destruct pend; simpl in H; [|discriminate]. exists []. simpl. auto.
    - destruct pend as [|e0 pend']; [exists []; simpl; auto|].
      rewrite lin_search_S in H.
      remember (picks Op Ret (e0 :: pend')) as cs eqn:Hcs.
      assert (Hperm : forall e rest, In (e, rest) cs -> Permutation (e :: rest) (e0 :: pend')).
      { intros e rest Hin. subst cs. apply picks_from_perm in Hin. exact Hin. }
      clear Hcs. revert budget H. induction cs as [|[e rest] cs IHcs]; intros budget H; simpl in H; [discriminate|].
      destruct (budget =? 0)%N; [discriminate|].
      pose proof (IHcs (fun e' rest' Hin => Hperm e' rest' (or_intror Hin))) as Hnext.
      destruct (minimal Op Ret e rest) eqn:Hmin; [|eapply Hnext; exact H].
      destruct (lstep s (ev_op e)) as [[s' r]|] eqn:Hst; [|eapply Hnext; exact H].
      destruct (ret_ok r (ev_ret e)) eqn:Hret; [|eapply Hnext; exact H].
      destruct (lin_search St Op Ret lstep ret_ok d s' rest (budget - 1)%N) as [v b0] eqn:Hrec.
      destruct v; [| eapply Hnext; exact H | discriminate].
      apply IH in Hrec as [order [Hp [Ho Hacc]]].
      exists (e :: order). split; [|split].
      + eapply Permutation_trans; [apply perm_skip; exact Hp|]. apply Hperm. left. reflexivity.
      + simpl. split; [|exact Ho]. intros b1 Hin. apply (minimal_spec e rest Hmin).
        eapply Permutation_in; eauto.
      + simpl. exists s', r. auto.
  Qed.

  Lemma lin_check_sound budget s0 h :
    lin_check St Op Ret lstep ret_ok budget s0 h = true -> linearizable St Op Ret lstep ret_ok s0 h.
  Proof.
    unfold lin_check, lin_verdict. intro H.
    destruct (lin_search St Op Ret lstep ret_ok (S (length h)) s0 h budget) as [v b] eqn:E. simpl in H.
    destruct v; try discriminate.
    apply lin_search_sound in E as [order [Hp [Ho Hacc]]].
    exists order. split; [exact Hp|]. split; [apply ordered_respects; exact Ho | exact Hacc].
  Qed.
End LinSound.

(* ------------------------------------------------------------------ the model meets the specification *)

Lemma observe_from fixed ttl pi tr : forall k s,
  exists ot, attach tr (views_from fixed ttl pi k s tr) = Some ot /\ forget ot = tr /\
    forall pre t V post, ot = pre ++ (t, View, V) :: post ->
      V = view ttl (pi (k + length pre)%nat) t (run_from fixed ttl s (forget pre)).
Proof.
  induction tr as [|x tr IH]; intros k s; simpl.
  - exists []. split; [reflexivity|]. split; [reflexivity|]. intros pre t V post H. destruct pre; discriminate.
  - destruct (IH (S k) (step fixed ttl s x)) as [ot [Ha [Hf Hv]]].
    assert (Hgen : forall V0, (snd x = View -> V0 = view ttl (pi k) (fst x) s) ->
      forall pre t V post, (x, V0) :: ot = pre ++ (t, View, V) :: post ->
        V = view ttl (pi (k + length pre)%nat) t (run_from fixed ttl s (forget pre))).
    { intros V0 HV0 pre t V post Heq. destruct pre as [|y pre]; simpl in Heq; inversion Heq; subst.
      - simpl. rewrite Nat.add_0_r. apply HV0. reflexivity.
      - simpl. replace (k + S (length pre))%nat with (S k + length pre)%nat by lia. eapply Hv. reflexivity. }
    destruct (snd x) eqn:Eo; simpl; rewrite Ha; simpl.
    + exists ((x, []) :: ot). split; [reflexivity|]. split; [simpl; rewrite Hf; reflexivity|]. apply Hgen. discriminate.
    + exists ((x, []) :: ot). split; [reflexivity|]. split; [simpl; rewrite Hf; reflexivity|]. apply Hgen. discriminate.
    + exists ((x, view ttl (pi k) (fst x) s) :: ot). split; [reflexivity|]. split; [simpl; rewrite Hf; reflexivity|]. apply Hgen. auto.
    + exists ((x, []) :: ot). split; [reflexivity|]. split; [simpl; rewrite Hf; reflexivity|]. apply Hgen. discriminate.
Qed.

Lemma model_meets_spec ttl pi tr : 0 <= ttl -> (forall k l, Permutation (pi k l) l) -> time_sorted tr ->
  exists ot, observe true ttl pi tr = Some ot /\ forget ot = tr /\ C10_spec ttl ot.
Proof.
  intros Httl Hpi Hs. unfold observe, views.
  destruct (observe_from true ttl pi tr 0%nat []) as [ot [Ha [Hf Hv]]].
  exists ot. split; [exact Ha|]. split; [exact Hf|].
  intros pre t V post Hot.
  pose proof (Hv pre t V post Hot) as HV. simpl in HV. fold (run true ttl (forget pre)) in HV.
  assert (Hs' : time_sorted (forget pre ++ [(t, View)])).
  { rewrite <- Hf, Hot, forget_app in Hs. simpl in Hs.
    apply (time_sorted_app_l _ (forget post)). rewrite <- app_assoc. exact Hs. }
  rewrite HV. split; [|split; [|split]].
  - apply view_nodup. apply Hpi.
  - apply view_sound. apply Hpi.
  - apply view_kept; auto.
  - intros q1 t' V' q2 r1 Hpre Hin Hnr Hl.
    eapply (view_mono true ttl (pi (length pre)) pre t Httl Hs' (Hpi _ _) q1 t' V' q2 r1 (pi (length q1))); eauto.
    assert (Hot' : ot = q1 ++ (t', View, V') :: (q2 ++ (t, View, V) :: post)).
    { rewrite Hot, Hpre, <- app_assoc. reflexivity. }
    pose proof (Hv q1 t' V' _ Hot') as HV'. simpl in HV'. exact HV'.
Qed.

(* ------------------------------------------------------------------ no downgrade, one operation *)

Lemma add1_no_overwrite fixed ttl now s r e :
  lookup (r_wid r) s = Some e -> expired ttl now e = false -> (r_blk r <= r_blk (e_res e))%N ->
  add1 fixed ttl now s r = s.
Proof.
  intros Hl Hx Hb. rewrite add1_cases. unfold stores. rewrite Hl, Hx.
  replace (if fixed then false else false) with false by (destruct fixed; reflexivity). simpl.
  assert ((r_blk (e_res e) <? r_blk r)%N = false) as -> by (apply N.ltb_ge; exact Hb). reflexivity.
Qed.
