(* The hand-written result-store and proposal-queue models take exactly the decisions of
   pkg/v3/stores/result_store.go and proposal_queue.go as /verif/gen translated them from /repo's current
   sources (Gen/GeneratedTr.v).  Every model step function is shown to be the interpretation of the generated
   loop-body term.  Scripts are semantic (case split on every comparison, then lia). *)
From Coq Require Import ZArith NArith Bool List Lia ZifyBool ZifyN ZifyNat.
From Verif Require Import Base.GenIR Gen.GeneratedTr Model.ResultStore Model.ProposalQueue.
Import ListNotations.
Open Scope Z_scope.

Definition oget {A} (d : A) (o : option A) : A := match o with Some x => x | None => d end.
Definition isSome {A} (o : option A) : bool := match o with Some _ => true | None => false end.

(* ---------------- result store ---------------- *)
(* Add, loop body: 1 = s.data[work id] := {r, now}.  The model's add1 (repaired variant) is its interpretation;
   [age] is time.Since(addedAt) of the stored entry, irrelevant when there is none. *)
Lemma gen_rs_add_body : forall ttl now s r,
  let l := lookup (r_wid r) s in
  let e := oget (mkEnt r now) l in
  add1 true ttl now s r =
  match g_rs_add_body (isSome l) (now - e_at e) ttl (Z.of_N (r_blk (e_res e))) (Z.of_N (r_blk r)) with
  | ([1], Fall) => remove1 (r_wid r) s ++ [mkEnt r now]
  | _ => s
  end.
Proof.
  intros. unfold add1, g_rs_add_body, expired. fold l. subst e.
  destruct l as [e|]; cbn [isSome oget negb orb]; [|reflexivity].
  gen_split; cbn [orb]; try reflexivity; try (exfalso; lia).
Qed.

(* View, loop body: an entry older than the TTL is skipped, any other is returned (1 = append) *)
Lemma gen_rs_view_body : forall ttl now e t,
  filter (fun e => negb (expired ttl now e)) (e :: t) =
  match g_rs_view_body (now - e_at e) ttl with
  | ([1], Fall) => e :: filter (fun e => negb (expired ttl now e)) t
  | _ => filter (fun e => negb (expired ttl now e)) t
  end.
Proof.
  intros. cbn [filter]. unfold g_rs_view_body, expired.
  gen_split; cbn [negb]; try reflexivity; try (exfalso; lia).
Qed.

(* gc, loop body: an entry older than the TTL is deleted (1), any other kept: the model's gc keeps the same ones *)
Lemma gen_rs_gc_body : forall ttl now e t,
  gc ttl now (e :: t) =
  match g_rs_gc_body (now - e_at e) ttl with
  | ([1], Fall) => gc ttl now t
  | _ => e :: gc ttl now t
  end.
Proof.
  intros. unfold gc. cbn [filter]. unfold g_rs_gc_body, expired.
  gen_split; cbn [negb]; try reflexivity; try (exfalso; lia).
Qed.

(* Remove: every id of the argument is removed (loop body = one call of remove); remove deletes the key when present *)
Lemma gen_rs_remove : forall found : bool,
  g_rs_remove_body = ([1], Fall) /\
  g_rs_remove found = if found then ([1], Fall) else ([], RetU).
Proof. intros [|]; split; reflexivity. Qed.

(* ---------------- proposal queue ---------------- *)
(* Enqueue, loop body: 1 = records[work id] := {p, now, not removed}; the model's enqueue1 is its interpretation *)
Lemma gen_pq_enqueue_body : forall now q p,
  let l := qget (p_wid p) q in
  enqueue1 now q p =
  match g_pq_enqueue_body (isSome l) (Z.of_N (p_blk (q_prop (oget (mkQRec p false now) l)))) (Z.of_N (p_blk p)) with
  | ([1], Fall) => qset (p_wid p) (mkQRec p false now) q
  | _ => q
  end.
Proof.
  intros. unfold enqueue1, g_pq_enqueue_body. fold l.
  destruct l as [r|]; cbn [isSome oget]; [|reflexivity].
  gen_split; try reflexivity; try (exfalso; lia).
Qed.

(* record.expired *)
Lemma gen_pq_expired : forall exp now r,
  g_pq_expired (now - q_at r) exp = ([], RetB (q_expired exp now r)).
Proof. intros. unfold g_pq_expired, q_expired. reflexivity. Qed.

(* Dequeue, first loop body: expired records are deleted (1), removed ones skipped, records of the wanted type
   are candidates (2): the candidate filter and the survivor filter of the model's dequeue *)
Lemma gen_pq_dequeue_body : forall exp now typ (kv : N * qrec),
  let d := g_pq_dequeue_body (q_expired exp now (snd kv)) (q_removed (snd kv)) (Z.of_N (p_typ (q_prop (snd kv)))) (Z.of_N typ) in
  (negb (q_expired exp now (snd kv)) && negb (q_removed (snd kv)) && N.eqb (p_typ (q_prop (snd kv))) typ
   = match d with ([2], Fall) => true | _ => false end)
  /\ (negb (q_expired exp now (snd kv)) = match d with ([1], Fall) => false | _ => true end).
Proof.
  intros. subst d. unfold g_pq_dequeue_body.
  destruct (q_expired exp now (snd kv)), (q_removed (snd kv)); cbn [negb andb]; split; try reflexivity;
    gen_split; try reflexivity; try (exfalso; lia).
Qed.

(* Dequeue, whole function: 1 the scan, 2 n := len(candidates) when fewer than n, 3 cut to n, 4 mark as removed *)
Lemma gen_pq_dequeue : forall (A : Type) (cands : list A) (n : nat),
  firstn n cands =
  match g_pq_dequeue (Z.of_nat (length cands)) (Z.of_nat n) with
  | ([1; 2; 3; 4], RetO 1) => cands
  | ([1; 3; 4], RetO 1) => firstn n cands
  | _ => []
  end.
Proof.
  intros. unfold g_pq_dequeue. gen_split; try reflexivity. apply firstn_all2. lia.
Qed.
