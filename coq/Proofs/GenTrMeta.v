(* Metadata store views and the ordered map: the decisions of the code as /verif/gen translated it from /repo's
   current sources. *)
From Coq Require Import ZArith NArith Bool List Lia ZifyBool ZifyN ZifyNat.
From Verif Require Import Base.GenIR Gen.GeneratedTr Model.Metadata.
Import ListNotations.
Open Scope Z_scope.

(* metadata store views, loop bodies (both trigger types): the model's vbody is the interpretation
   (1 = delete the expired key, 2 = append the proposal) *)
Lemma gen_ms_view_body : forall expiry now st k,
  let '(m, out) := st in
  vbody expiry now st k =
  match g_ms_view_log_body (rec_expired expiry now (vget k (om_vals m))) with
  | ([1], Fall) => (om_delete k m, out)
  | _ => match vget k (om_vals m) with Some r => (m, out ++ [m_prop r]) | None => (m, out) end
  end
  /\ g_ms_view_cond_body = g_ms_view_log_body.
Proof.
  intros expiry now [m out] k. split; [|reflexivity]. unfold vbody, g_ms_view_log_body, rec_expired.
  destruct (vget k (om_vals m)) as [r|]; [|reflexivity]. destruct (now - m_at r >? expiry); reflexivity.
Qed.

Lemma gen_ms_expired : forall expiry now r,
  g_ms_expired (now - m_at r) expiry = ([], RetB (rec_expired expiry now (Some r))).
Proof. intros. reflexivity. Qed.

(* orderedMap.Add: a known key only gets its value replaced, a new key is appended to the key slice as well *)
Lemma gen_ms_omap_add : forall known : bool,
  g_ms_omap_add known = if known then ([1], Fall) else ([2; 1], Fall).
Proof. intros [|]; reflexivity. Qed.
