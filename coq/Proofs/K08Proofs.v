(* Soundness of the C08 checker K08: what a `true` verdict on an observed observation means. *)
From Verif Require Import Base.Util Model.Outcome Model.Observation Proofs.ObservationProofs.
From Coq Require Import ZifyBool ZifyN ZifyNat.
Open Scope N_scope.

Lemma is_prefixN_spec a : forall b, is_prefixN a b = true -> exists rest, b = a ++ rest.
Proof.
  induction a as [|x a IH]; intros b H; simpl in H; [exists b; reflexivity|].
  destruct b as [|y b]; [discriminate|]. destruct (x =? y) eqn:E; [|discriminate].
  apply IH in H as [rest ->]. exists rest. assert (x = y) by lia. subst. reflexivity.
Qed.

Lemma pair_eqb_eq a b : pair_eqb a b = true <-> a = b.
Proof.
  unfold pair_eqb. destruct a as [a1 a2], b as [b1 b2]. simpl.
  destruct (a1 =? b1) eqn:E1; [destruct (a2 =? b2) eqn:E2|]; split; intro H; try discriminate; try reflexivity.
  - f_equal; lia.
  - inversion H. lia.
  - inversion H. lia.
Qed.

Lemma sublistb_spec a b : sublistb a b = true -> forall x, In x a -> In x b.
Proof.
  induction a as [|y a IH]; simpl; intros H x Hx; [destruct Hx|].
  destruct (existsb (pair_eqb y) b) eqn:E; [|discriminate].
  destruct Hx as [<-|Hx]; [|apply IH; assumption].
  apply existsb_exists in E as [z [Hz He]]. apply pair_eqb_eq in He. subst. exact Hz.
Qed.

Record C08_spec (k : b_case) : Prop := {
  s_prefix : exists rest, map s_wid (canonical k) = b_perf k ++ rest;
  s_cut : let full := firstn (Z.to_nat lim_perf) (canonical k) in
          if (obs_size (b_base k) (canonical k) (length full) <=? MaxObservationLength)%Z
          then length (b_perf k) = length full
          else (obs_size (b_base k) (canonical k) (length (b_perf k)) <= MaxObservationLength)%Z /\ (0 < length (b_perf k))%nat;
  s_props_own : forall p, In p (b_props k) -> In p (b_logv k ++ b_condv k) /\ ~ In (fst p) (b_blocked k);
  s_props_once : NoDup (map fst (b_props k));
  s_hist : b_hist k = Nat.min lim_hist (b_histlen k) /\ b_histok k = true;
  s_perf_once : NoDup (b_perf k);
  s_twin : b_twin_ok k = true
}.

Lemma land3 (a b : bool) : (a &&& b) = true -> a = true /\ b = true.
Proof. destruct a, b; simpl; intro H; try discriminate; auto. Qed.

Theorem K08_sound k : K08 k = true -> C08_spec k.
Proof.
  unfold K08. intro H.
  repeat match type of H with (_ &&& _) = true => apply land3 in H; destruct H as [H ?] end.
  constructor.
  - apply is_prefixN_spec. assumption.
  - cbv zeta. match goal with Hc : (if _ then _ else _) = true |- _ => revert Hc end.
    destruct (obs_size (b_base k) (canonical k) (length (firstn (Z.to_nat lim_perf) (canonical k))) <=? MaxObservationLength)%Z.
    + intro Hc. apply Nat.eqb_eq. exact Hc.
    + intro Hc. apply land3 in Hc as [Hc1 Hc2]. split; lia.
  - intros p Hp.
    match goal with Hs : sublistb _ _ = true |- _ => pose proof (sublistb_spec _ _ Hs p Hp) as Hin end.
    apply filter_In in Hin as [Hin Hb]. split; [exact Hin|]. apply memN_false_In. rewrite negb_true_iff in Hb. exact Hb.
  - apply nodupb_NoDup. assumption.
  - split; [apply Nat.eqb_eq|]; assumption.
  - apply nodupb_NoDup. assumption.
  - assumption.
Qed.
