(* Generic boolean/list helpers shared by the models and their checkers. *)
From Coq Require Export List NArith ZArith Bool Lia Permutation.
Export ListNotations.

Fixpoint list_eqb {A} (e : A -> A -> bool) (l1 l2 : list A) : bool :=
  match l1, l2 with
  | [], [] => true
  | a :: l1', b :: l2' => if e a b then list_eqb e l1' l2' else false
  | _, _ => false
  end.

Lemma list_eqb_eq {A} (e : A -> A -> bool) :
  (forall a b, e a b = true <-> a = b) ->
  forall l1 l2, list_eqb e l1 l2 = true <-> l1 = l2.
Proof.
  intros He l1; induction l1 as [|a l1 IH]; intros [|b l2]; simpl; split; intro H;
    try reflexivity; try discriminate.
  - destruct (e a b) eqn:E; [|discriminate]. apply He in E. apply IH in H. congruence.
  - inversion H; subst. replace (e b b) with true by (symmetry; apply He; reflexivity). apply IH; reflexivity.
Qed.

Definition memN (x : N) (l : list N) : bool := existsb (N.eqb x) l.

Lemma memN_In x l : memN x l = true <-> In x l.
Proof.
  unfold memN. rewrite existsb_exists. split.
  - intros [y [Hy He]]. apply N.eqb_eq in He. subst. exact Hy.
  - intro H. exists x. split; [exact H | apply N.eqb_refl].
Qed.

Lemma memN_false_In x l : memN x l = false <-> ~ In x l.
Proof.
  rewrite <- memN_In. destruct (memN x l); split; intro H; auto; try discriminate.
  exfalso. apply H. reflexivity.
Qed.

Fixpoint nodupb (l : list N) : bool :=
  match l with [] => true | x :: t => negb (memN x t) && nodupb t end.

Lemma nodupb_NoDup l : nodupb l = true <-> NoDup l.
Proof.
  induction l as [|x t IH]; simpl.
  - split; intro; [constructor | reflexivity].
  - rewrite andb_true_iff, negb_true_iff, memN_false_In, IH. split.
    + intros [H1 H2]. constructor; assumption.
    + intro H. inversion H; subst. split; assumption.
Qed.

Lemma forallb_Forall {A} (f : A -> bool) (P : A -> Prop) l :
  (forall x, f x = true -> P x) -> forallb f l = true -> Forall P l.
Proof.
  intros Hf. induction l as [|x t IH]; simpl; intro H; constructor;
    apply andb_true_iff in H as [H1 H2]; auto.
Qed.

(* indices (0-based) of the elements of [l] satisfying [f] *)
Fixpoint find_idx_from {A} (f : A -> bool) (l : list A) (i : nat) : list nat :=
  match l with
  | [] => []
  | x :: t => if f x then i :: find_idx_from f t (S i) else find_idx_from f t (S i)
  end.
Definition find_idx {A} (f : A -> bool) (l : list A) : list nat := find_idx_from f l 0.

Lemma NoDup_snoc {A} (l : list A) (x : A) : NoDup l -> ~ In x l -> NoDup (l ++ [x]).
Proof.
  induction l as [|a l IH]; simpl; intros Hn Hx.
  - constructor; [intros []|constructor].
  - inversion Hn; subst. constructor.
    + rewrite in_app_iff. simpl. intros [H|[H|[]]]; [auto | subst; apply Hx; left; reflexivity].
    + apply IH; [assumption | intro H; apply Hx; right; exact H].
Qed.

Lemma In_firstn {A} n (l : list A) x : In x (firstn n l) -> In x l.
Proof.
  revert n; induction l as [|a t IH]; intros [|n] H; simpl in *; try tauto.
  destruct H; [left | right]; eauto.
Qed.
