(* Target of /verif/gen's decision-code translator (gen/translate.go): a translated Go function or loop body
   is a term of type [list Z * leaf] - the ids of the white-listed effect statements executed on the path
   taken, in order, and the way the path ends.  No proofs about models here. *)
From Coq Require Import ZArith Bool List Lia.
Import ListNotations.
Open Scope Z_scope.

Inductive leaf :=
| Fall            (* control reaches the end of the body *)
| Cont            (* continue *)
| Brk             (* break *)
| RetU            (* return *)
| RetB (b : bool) (* return <boolean expression> *)
| RetZ (z : Z)    (* return <integer expression> *)
| RetO (id : Z).  (* return <white-listed other expression(s)> *)

Definition wrap64 (z : Z) : Z := z mod 2 ^ 64.
Definition wrap32 (z : Z) : Z := z mod 2 ^ 32.

Definition leaf_eqb (a b : leaf) : bool :=
  match a, b with
  | Fall, Fall | Cont, Cont | Brk, Brk | RetU, RetU => true
  | RetB x, RetB y => Bool.eqb x y
  | RetZ x, RetZ y => Z.eqb x y
  | RetO x, RetO y => Z.eqb x y
  | _, _ => false
  end.

(* Decide an equation between two decision terms semantically: split on every comparison that occurs,
   then arithmetic.  Robust against harmless rewrites of the source (reordered disjuncts, a >= b for
   !(a < b), nested if for &&) - and fails when a decision really differs. *)
Ltac gen_split :=
  repeat match goal with
         | |- context [Z.ltb ?a ?b] => destruct (Z.ltb_spec a b)
         | |- context [Z.leb ?a ?b] => destruct (Z.leb_spec a b)
         | |- context [Z.gtb ?a ?b] => rewrite (Z.gtb_ltb a b)
         | |- context [Z.geb ?a ?b] => rewrite (Z.geb_leb a b)
         | |- context [Z.eqb ?a ?b] => destruct (Z.eqb_spec a b)
         | |- context [N.ltb ?a ?b] => destruct (N.ltb_spec a b)
         | |- context [N.leb ?a ?b] => destruct (N.leb_spec a b)
         | |- context [N.eqb ?a ?b] => destruct (N.eqb_spec a b)
         | |- context [Nat.ltb ?a ?b] => destruct (Nat.ltb_spec a b)
         | |- context [Nat.leb ?a ?b] => destruct (Nat.leb_spec a b)
         | |- context [Nat.eqb ?a ?b] => destruct (Nat.eqb_spec a b)
         end.

Ltac gen_decide :=
  intros;
  repeat match goal with b : bool |- _ => destruct b end;
  cbn [negb andb orb Bool.eqb fst snd];
  gen_split;
  cbn [negb andb orb Bool.eqb fst snd];
  try reflexivity; try (exfalso; lia); try congruence.
