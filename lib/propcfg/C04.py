"""Driver configuration for C04."""

CFG = dict(
    shrink_fields=['perfs'],
    tests=["TestC04"],
    n_quick=150, n_thorough=1500, shards_thorough=6,
    rule="corpus + 21 boundary families (over-limit first/middle/last/all, gas == limit / limit+1, repeated upkeep ids, "
         "batch 1, 100 performables, encoder failing on call k, config defaults) + VERIF_N random cases from one PRNG; "
         "a case is non-trivial when the implementation returned >= 2 reports; distinct = structural hash of the generator-form input",
    trusted=["recording Encoder wrapping tools/simulator/util.EncodeCheckResultsToReportBytes",
             "plug-in instance from plugin.NewReportingPluginFactory with in-memory fake providers"],
    assumptions=["off-chain config reaches the plug-in through DecodeOffchainConfig (batch >= 1 after defaults)",
                 "gas allocations < 2^62, gas limit and overhead are uint32 (as in OffchainConfig)",
                 "upkeep ids / work ids are interned to small integers for the model; UpkeepIdentifier.String() is injective on [32]byte"],
    modelled="ocr3Plugin.Reports batching fold (pkg/v3/plugin/ocr3.go) incl. uint64 wrap; the JSON outcome decode and the Encoder are exercised, not modelled",
)
