"""Driver configuration for C03."""

CFG = dict(
    tests=["c01:TestC03", "c08:TestC03Obs", "c08:TestC03Quorum", "c08:TestC03Limits", "c08:TestC03HistRace"],
    case_files={"cases_outcome": "c01:TestC03", "cases_obs": "c08:TestC03Obs"},
    n_quick=40, n_thorough=150, shards_thorough=4, timeout_quick=900, timeout_thorough=3000,
    rule="four parts (the fourth: 3000 observations built while the block source keeps delivering alternating histories, each validated by a peer instance): (1) outcome clauses on the C01 rounds (boundary families + VERIF_N random rounds): K03 = the real outcome passes the "
         "rule-shaped validity checker and its byte length is within MaxOutcomeLength whenever the previous outcome is valid; (2) observation "
         "clauses on the C08 stores (boundary families incl. 10,000-byte perform data and 3000 staged results + VERIF_N random stores): K03obs = a "
         "SECOND plug-in instance's ValidateObservation accepts the bytes and len <= MaxObservationLength; (3) the real ObservationQuorum on the "
         "full grid n<=31, f<=(n-1)/3, k<=n against 2f+1 (exhaustive); non-trivial = non-empty outcome/observation, or a grid point at k in {2f, 2f+1}",
    trusted=["see C01 and C08 (same harness packages)", "libocr quorumhelper (called by the real ObservationQuorum)"],
    assumptions=["well-behaved pipeline: eligible results, gas != 0, prices in uint256 range, perform data <= 10,000 bytes, correct work ids",
                 "wg_ext: the work-id generator ignores the coordinated block"],
    modelled="validation (Model/Validate.v), Outcome (Model/Outcome.v), observation hooks (Model/Observation.v), Reports (Model/Reports.v)",
    partial="the byte length of an OUTCOME is proved (C03_outcome_len: the wire model of Model/Wire.v, which C15 ties to Encode() byte for byte, "
            "stays below MaxOutcomeLength for perform data up to 10,000 bytes - 2,381,012 bytes at most); the byte length of an OBSERVATION is observed on every "
            "case (the trimming arithmetic of the performables part is proved from sizes measured with the real encoder)",
)
