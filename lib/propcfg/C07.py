"""Driver configuration for C07."""

CFG = dict(
    tests=["TestC07"],
    pkg="c06",
    n_quick=400, n_thorough=1500, shards_thorough=6,
    rule="same generator as C06 with the operation mix shifted towards ShouldProcess / PreProcess / FilterResults / FilterProposals and the "
         "observation hooks (AddFromStaging, AddLogProposals, AddConditionalProposals over a real result / metadata store and the real "
         "coordinator); every boundary life-cycle (accept -> perform/stale/reorg/insufficient funds -> re-propose -> expiry, both upkeep types, "
         "check block in {tblock-1, tblock, tblock+1}) + VERIF_N random histories; a history is non-trivial when some filter dropped an item; "
         "distinct = structural hash of the generator-form case",
    trusted=["scripted TransmitEventProvider, testing/synctest virtual clock (as C06)",
             "stores.New / stores.NewMetadataStore instances created per hook call; hook output order (keyed shuffle) canonicalised to input order"],
    assumptions=["as C06; upkeep type is read from the id by tools/simulator/util.GetUpkeepType (0 conditional, 1 log, other = neither arm)",
                 "each hook call uses distinct work ids (the stores are keyed by work id)"],
    modelled="coordinator.ShouldProcess / PreProcess / FilterResults / FilterProposals on the same state model as C06; hooks are exercised as "
             "filters (their sorting/limits belong to C08); flows' use of the coordinator as first pre-processor is not re-checked here",
)
