"""Driver configuration for C19 (simulated chain)."""

CFG = dict(
    tests=["TestC19"],
    n_quick=120, n_thorough=700, shards_thorough=4,
    rule="three case files from one PRNG. hist: 21 boundary families (98..101 of defect 9, ranges crossing 10/100/1000/10^5/10^9/2^32, "
         "near 2^64, history depth 255/256/257/300, reversed/shuffled/locally jittered arrival, repeats, conflicting content for one "
         "number, a late old block, burst delivery) + VERIF_N random arrivals fed through a harness-controlled block source into the real "
         "Listener -> BlockHistoryTracker inside synctest bubbles; non-trivial = history of >= 2 blocks. "
         "tx: 8 boundary families + VERIF_N random waves of concurrent Transmit calls on the real OCR3TransmitLoader, a Load after each "
         "wave; non-trivial = at least one duplicate rejected. conf: 12 boundary families (look-back 100/101/130 transmit blocks across a "
         "power of ten, out-of-order delivery, empty transactions/reports) + VERIF_N/2 random deliveries through Listener -> ReportTracker, "
         "transmits stamped by the real loader; non-trivial = at least one event returned. direct.json: real BlockBroadcaster with "
         "per-subscriber delays and 1..7 listeners under synctest (every listener gets every block once, same hash, final history exact), and "
         "15 subscribe / unsubscribe / re-subscribe churn runs on it (raw subscriptions and real Listeners; A,B subscribed - A leaves - C joins, "
         "plus random churn): every subscriber gets exactly the blocks broadcast while attached, ids of live subscriptions are distinct, "
         "an unsubscribed channel is closed and nobody else's is. "
         "distinct = structural hash of the generator-form input",
    trusted=["harness block source implementing chain.Broadcaster (controls arrival order)",
             "verif-tag hooks Listener/BlockHistoryTracker/ReportTracker.VerifStop (the services otherwise stop only in a finalizer)",
             "testing/synctest virtual time for cadence, jitter and per-subscriber delays"],
    assumptions=["block numbers are non-negative and below 2^64 (BlockKey.Number is uint64); their keys are big.Int.String()",
                 "gob encoding of TransmitEvent{Report, Round} is injective, so the de-duplication key is the pair (report, round)",
                 "C19_arrival_indep: one block per number (a single broadcaster); with conflicting content the last one received wins",
                 "sort.Slice on pairwise distinct keys is modelled by insertion sort"],
    modelled="util.SortedKeyMap (Set/Get/Keys) with the code's key comparison, BlockHistoryTracker.run/broadcast, OCR3TransmitLoader.Transmit/"
             "Load/Results, ReportTracker.run/GetLatestEvents/createPluginTransmitEvents; exercised but not modelled: BlockBroadcaster timing and "
             "fan-out, Listener fan-out goroutines, report encoding, gob/sha256 hashing",
    partial="delivery of every block to every subscriber (goroutine per subscriber and block, random delays) and `latest` moving backwards "
            "under out-of-order delivery are schedule facts outside the sequential model: observed on real broadcaster runs under synctest "
            "and reported through direct.json (out-of-order listener runs are counted, negative confirmations are modelled and checked)",
)
