"""Driver configuration for C12 (result routing, retry queue)."""

CFG = dict(
    tests=["TestC12", "TestC12QueueRace"],
    n_quick=100, n_thorough=600, shards_thorough=4,
    rule="three case files from one PRNG. cases (observer): real Observer.Process + real Runner + the real post-processors "
         "combined as in each of the six flows + real retry queue; 21 boundary families (payloads [B; A] with A cached and B "
         "failing retryably, first batch failing so that results are shorter, later batches completing first, routing for each "
         "flow kind, all batches failing with cached hits, retry then success, retry failing again while pending, higher / equal "
         "block re-enqueued, same work id on two blocks, default interval at exactly 30 s and one ns later, results without work "
         "id / returned twice, coordinator filtering, failing until expired, dequeue limits) + VERIF_N random histories of "
         "process / retry-tick / dequeue steps. cases_flows: the exported flows.LogTriggerFlows, ConditionalTriggerFlows and "
         "NewRetryFlow started in a synctest bubble and stepped one virtual second at a time (3 families + VERIF_N/4 random "
         "injection schedules). cases_queue: op sequences Enqueue / Dequeue / Size on the real retry queue (8 families incl. "
         "interval and expiry boundaries, pending, replacement, n <= 0) + VERIF_N random ones. non-trivial = a history in which "
         "a retry was enqueued and something was staged or recorded (queue: something enqueued and something dequeued); "
         "distinct = structural hash of the generator-form input",
    trusted=["scripted Runnable (harness/c13/kit): per-batch latency on the synctest virtual clock, scripted batch failures, "
             "payload identity in CheckData, result identity in GasAllocated, k-th invocation per payload scripted separately",
             "recording fakes for ResultStore, MetadataStore, UpkeepStateUpdater, providers and the coordinator pre-processor; "
             "a recording wrapper around the real retry queue and around the real runner",
             "testing/synctest virtual clock (go1.26.8); flows are stepped so that at most one flow has work per second"],
    assumptions=["C12_retry_own_payload assumes a check pipeline that answers every payload of a batch once with the payload's "
                 "work id, block and hash, and non-empty work ids (results without work id are paired by position, as before)",
                 "two payloads of one call with equal work id, block number and block hash are the same unit of work on the "
                 "same check block (the checker accepts either for a retry)",
                 "when Dequeue leaves its loop by break while expired records exist, which of them were deleted depends on "
                 "the map order and is not observable; such steps are excluded (coverage R_cov_undetermined, empty by construction)"],
    modelled="Observer.Process after the pre-processors, eligible / ineligible / metadata / retry / combined post-processors as "
             "wired in the six flows, retryQueue Enqueue / Dequeue / Size; the ticks' Value (providers, proposal queue + builder, "
             "sampler shuffle, retry Dequeue) are exercised through the real flows and their output is taken as observed; "
             "pre-processors (coordinator, proposal filterer) are exercised, not modelled",
)
