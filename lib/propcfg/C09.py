"""Driver configuration for C09."""

CFG = dict(
    shrink_fields=['steps'],
    pkg="c09",
    tests=["TestC09"],
    n_quick=12, n_thorough=80, shards_thorough=4, timeout_quick=900, timeout_thorough=3000,
    rule="corpus + 25 boundary scenarios (Byzantine garbage / replay / mutate / crafted-unchecked results, work seen by f vs f+1 honest nodes, "
         "f Byzantine + 1 honest voucher, restart between accept and transmit, restart + re-delivered log + re-batching, perform / stale / reorg / "
         "insufficient-funds events with duplicates and too few confirmations, reports withheld from a node, lockout expiry, 130 candidates, f=0; "
         "conditional upkeeps through the whole cycle sampled -> proposed -> surfaced on the quorum block -> coordinated -> checked -> agreed -> "
         "performed -> still eligible -> again, three times, under every Byzantine mode; the perform event polled before a late accept; a stale-report "
         "event between cycles; 2f+1 members only) "
         "+ VERIF_N random schedules (n in {4,7,10}, random member subsets of size >= 2f+1, restarts, events, sleeps; half of them end in a calm tail with fresh conditional upkeeps going twice through the cycle) from one PRNG; "
         "liveness obligations (work id, round window) are recorded by the harness ONLY where it has checked the premise itself: >= 2f+1 honest nodes "
         "up and members of every round of the window, the work active and eligible on all of them, no report with it awaiting a confirmed event, "
         "no restart inside the window; bound = 5 rounds of 3 s (25+2 when the work may sit in the surfaced history on an overtaken block); each scenario "
         "runs n REAL plug-in instances (public factory, real flows/stores/coordinator, own logging check pipeline) in one testing/synctest bubble, "
         "the harness playing libocr; after every round and event batch every honest node is asked ShouldTransmit for every report ever produced; "
         "non-trivial = some honest node was willing to transmit something; distinct = structural hash of the scenario",
    trusted=["harness plays libocr: attributed observations, outcome on every honest node (must be byte-identical), reports, accept/transmit calls",
             "fake check pipeline per honest node returning a deterministic eligible result per payload and logging it (the `checked` ghost log)",
             "synctest bubble end-of-run leak panic is absorbed (goroutine accounting belongs to C18)"],
    assumptions=["at most f Byzantine members per round (hypothesis byz_bounded of the theorems; scenario generator respects it)",
                 "uid_inj and valid_nodup as in C01/C15",
                 "libocr delivers only attested reports of earlier outcomes (Accept precondition in the model)"],
    modelled="round-level network model over the Outcome model: per-node checked/staged/accepted sets, Byzantine members as arbitrary bytes; "
             "the coordinator's pending/transmit bookkeeping is C06/C07's model and is exercised here, not re-modelled",
    partial="liveness: the links of the cycle are theorems in three model vocabularies (C09_live_surfaced, _coordinated_is_dequeued, "
            "_checked_is_viewed, _partial) that are not composed into one function; the end-to-end bound is decided on the real nodes by K09_live; 'no two different reports for one unit of work at once' is refuted (F09); "
            "schedules are sampled",
)
