"""Driver configuration for C14 (generic worker group: pkg/util/worker.go)."""

CFG = dict(
    tests=["TestC14"],
    n_quick=2500, n_thorough=8000, shards_thorough=4,
    timeout_quick=600, timeout_thorough=3000,
    rule="one case = one synctest bubble around the REAL util.NewWorkerGroup / util.RunJobs (or the v3 / v2 runner built on it): "
         "workers 1..64, 1..5 concurrent callers with 0..1000 jobs each, job functions instantaneous or taking virtual time; "
         "boundary families: undisturbed runs, Stop / cancel before submission, Stop / cancel injected at a swept count of job "
         "starts / completions (hand-offs signalled by the job functions), Stop racing the submission loop after a swept number of "
         "scheduler yields, Stop / cancel at swept virtual instants, runner.Close racing CheckUpkeeps; plus VERIF_N random cases from "
         "one PRNG. After a virtual hour of quiescence a caller that has not returned is recorded as a hang (synctest: every goroutine "
         "durably blocked), not a crash. Non-trivial = a Stop/cancel was injected or several callers ran concurrently.",
    trusted=["testing/synctest (go1.26.8): virtual clock and durable-blocking detection decide 'never returns'",
             "harness projection: callback values sorted and run-length encoded (lossless); goroutine dump filtered to pkg/util, pkg/v3/runner, pkg/v2/runner",
             "verif hook WorkerGroup.VerifInputLen (add-only, tag verif) to see an item stranded in the input channel"],
    assumptions=["job functions terminate once their context is cancelled (the harness' do)",
                 "group ids drawn by RunJobs (rand.Intn(1e9)) are distinct among concurrent callers - the model gives each caller its own result list",
                 "maxWorkers >= 1",
                 "Go's select among ready cases and the scheduler are modelled as nondeterministic choice; channel operations are atomic transitions"],
    modelled="pkg/util/worker.go: Do (flag checks + 3-way select), RunJobs (wait group, reader goroutine, RemoveGroup, end channel), "
             "runQueuing, runProcessing/processQueue/doJob, worker.Do token recycling, Stop; input capacity read from the source by gen/. "
             "Exercised but not modelled: result values/errors, the v3/v2 runners' caches and batching, makeJobFunc's context plumbing.",
    partial="the Go scheduler cannot be steered through a chosen interleaving without editing worker.go: the tie between the real code "
            "and the transition system is outcome-set inclusion (every observed outcome satisfies the predicate proved for every "
            "terminal state of the model), not trace inclusion; the model does not exhibit result payloads or error values",
)
