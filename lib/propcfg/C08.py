"""Driver configuration for C08."""

CFG = dict(
    pkg="c08",
    tests=["TestC08", "TestC08HistRace"],
    n_quick=25, n_thorough=150, shards_thorough=4, timeout_quick=900, timeout_thorough=3000,
    rule="corpus + 17 boundary families (0/5/99/100/101 candidates, in-flight sets, all results at the 10,000-byte perform-data cap so that "
         "the byte limit cuts, mixed sizes, sequence numbers crossing a multiple of 10, warm-up rounds exercising the shuffled-id memo with a "
         "changed and an unchanged source, 6+ proposals per type, proposals in flight, previous outcome removing staged results and proposals, "
         "3000 staged results) + VERIF_N random stores; each case: results staged through the REAL log flow / runner / result store, "
         "proposals through the real recovery-proposal and sampling flows into the real metadata store, in-flight work through real accepted "
         "reports in the real coordinator, all on a virtual clock; a twin instance receives the same candidates in another insertion order; "
         "non-trivial = the observation has a performable or proposal; distinct = structural hash of the generator-form input",
    trusted=["plug-in instances from plugin.NewReportingPluginFactory inside testing/synctest bubbles; fake providers feed the real flows",
             "byte sizes of results and of the base observation measured with the real encoder (goccy/go-json) by the harness",
             "shuffle ranks from the real random.ShuffleString with key (digest, seq/10); proposal permutation from the real keyed source",
             "the node's views reconstructed by the harness from what it fed to the flows (staged = eligible results returned by the fake "
             "pipeline; proposed = recoverables pushed / conditional upkeeps the sampling flow checked)"],
    assumptions=["every encoded result is at least 2 bytes (sizes_ok); ceil of the float64 division equals integer ceiling for operands < 2^53",
                 "shuffled work ids pairwise distinct (store holds one result per work id; ShuffleString injective)"],
    modelled="AddFromStagingHook (orderResults, addByPercentageExceeded), AddLogProposalsHook / AddConditionalProposalsHook (filter, keyed shuffle, cap), "
             "AddBlockHistoryHook; the stores, coordinator and flows are exercised, their models belong to C06/C07/C10/C11",
    partial="the Go scheduler is not modelled: the block-history race part (TestC08HistRace) samples real interleavings",
)
