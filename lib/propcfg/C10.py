"""Driver configuration for C10 (staging result store)."""

CFG = dict(
    tests=["TestC10", "TestC10GCRace"],
    n_quick=300, n_thorough=1200, shards_thorough=5,
    rule="corpus + 23 sequential boundary families (TTL exact / +-1 ns, replace higher / drop lower / drop equal, "
         "expired-but-uncollected entry met by same / lower / higher block (finding 12), dropped result whose blocker expires, "
         "remove then lower, absent ids, duplicate work ids inside one Add, gc then re-add, ineligible results, 20 ids with mixed expiry, "
         "view at a gc tick) + 2 concurrent boundary histories + VERIF_N random sequential histories (8-21 operations over 2-4 work ids, "
         "sleeps from a table around the 5 min TTL and the 30 s gc tick) + VERIF_N/3 recorded concurrent histories "
         "(4-6 goroutines x 3-5 operations, invocation/response stamps from one atomic counter, sleeps that make goroutines meet at "
         "the same virtual instants and cross the TTL), all from one PRNG; sequential: non-trivial = some view non-empty and > 3 "
         "operations; concurrent: > 5 events; distinct = structural hash of the generator-form case",
    trusted=["testing/synctest virtual clock (time.Now, time.Since, the gc ticker of resultStore.Start)",
             "stamps taken around each call by the harness (global atomic counter) bound the real invocation/response interval from outside",
             "projection of a CheckResult to (work id, check block, value id) by the harness"],
    assumptions=["time read by the store is non-decreasing",
                 "an operation does not span two virtual instants (checked per event by the harness)",
                 "work ids / result values are interned to small integers"],
    modelled="resultStore.Add / Remove / View / gc (pkg/v3/stores/result_store.go) with explicit clock and map-iteration oracle; "
             "eligiblePostProcessor.PostProcess (filter) and RemoveFromStagingHook.RunHook are exercised as the adder / remover, "
             "their filtering is projected by the harness (ineligible results are not part of the modelled trace and must never be viewed); "
             "concurrency: the RW mutex is not modelled, recorded histories are checked for linearizability against the model "
             "(fuelled search, lin_check_sound); OutOfFuel is reported as a correspondence failure",
    partial="the Go memory model cannot be exhibited by the model; the linearizability check samples schedules (View without the lock "
            "would be caught only probabilistically)",
)
