"""Driver configuration for C17."""

CFG = dict(
    tests=["TestC17", "TestC17Plugin", "c16:TestC17Obs"],
    case_files={"cases_obsfilter": "c16:TestC17Obs", "cases": "c17:TestC17", "cases_plugin": "c17:TestC17Plugin"},
    n_quick=120, n_thorough=1200, shards_thorough=4,
    rule="corpus + ~55 boundary families (single accept; accept+perform; accept+stale; log below min confirmations then enough; "
         "log before accept; re-orged perform to a later / earlier / the same block; perform then stale and reverse; several logs in one "
         "poll; two keys of one id with crossing check blocks and late logs; superseded key; accept again; transmit block 2^64 and above; "
         "check block 0 / 2^64-1 / above 2^64; minConfs 0 and negative; lockout expiry just before / at / after s+window; re-arming; "
         "activeKeys 1 h expiry) + VERIF_N random histories (1-3 ids, 1-4 check blocks, 3-12 ops) from one PRNG, each accept-first random "
         "history re-run in 20 random admissible re-orderings on fresh coordinators; plug-in part (cases_plugin): the v2 plug-in from NewReportingPluginFactory over the real CoordinatorFactory + BasicEncoder; "
         "reports with 2-4 keys, every subset of keys confirmed (perform / stale logs), ShouldTransmitAcceptedReport asked for every arrangement "
         "of the keys, every single key and every pair; never-accepted and malformed keys, logs below min confirmations, accepts with a malformed key "
         "first / middle / last, empty / undecodable reports + VERIF_N random plug-in histories; non-trivial there: a query mixing a confirmed and an "
         "unconfirmed key. Coordinator part: a case is non-trivial when its history has an "
         "effective log and two accepted keys of one id; distinct = structural hash of the generator-form input",
    trusted=["fake LogProvider handing the scripted logs to exactly one poll of the real 1 s poller (testing/synctest virtual clock)",
             "real encoding.BasicEncoder for SplitUpkeepKey / After / Increment"],
    assumptions=["block keys are canonical decimal strings (string equality = numeric equality); upkeep ids are decimal strings interned to small integers",
                 "Accept / IsPending / IsTransmissionConfirmed are not called concurrently with a poll (the harness waits for the bubble to settle); "
                 "the Get-then-Set races inside the coordinator are out of scope",
                 "state characterisation, blocking, unconfirmed and convergence theorems assume nothing expires (all op times and the query within the "
                 "lockout window and 1 h); expiry is covered by C17_blocking_expiry and by the model/implementation comparison"],
    modelled="reportCoordinator Accept / checkLogs (both arms) / updateIdBlock / shouldUpdate / IsPending / IsTransmissionConfirmed, util.Cache Get/Set expiry, "
             "BasicEncoder After/Increment on canonical decimals; the poll timer, cache cleaners, Start/Close are exercised, not modelled",
)
