"""Driver configuration for C16."""

CFG = dict(
    tests=["TestC16"],
    n_quick=800, n_thorough=2500, shards_thorough=6,
    rule="two case files from one PRNG. report: corpus + ~70 boundary families (median odd/even/ties/faulty extremes, "
         "undecodable / oversized / '+5' '05' '-0' 2^64 2^256 block and id strings, id lists beyond the limit, duplicates, "
         "every in-flight state of the real coordinator (accepted, perform log at / before the median, stale log check+1 / check+2, "
         "log below / at min confirmations), 9..31 distinct keys around the cap of ten, eligibility x error x detail-error, "
         "gas == limit / limit+1 / skip-then-smaller-fits / uint32 wrap witnesses, batch 1..5 and defaults, runner error / empty / "
         "too many / reversed / dropped results, encoder failure) + VERIF_N random cases; observation: 19 boundary families "
         "(no head yet, sampling failures keep the previous sample, pending ids, 78-digit ids) + VERIF_N/3 random cases. "
         "non-trivial: report cases with >= 2 valid observations and a non-empty report, observation cases listing an id; "
         "distinct = structural hash of the generator-form input",
    trusted=["v2 plug-in built by ocr2keepers.NewReportingPluginFactory with the real BasicEncoder (MakeUpkeepKey, Validate*, GetMedian), "
             "the real coordinator.CoordinatorFactory / reportCoordinator and the real polling.PollingObserverFactory / PollingObserver, "
             "started inside a testing/synctest bubble",
             "scripted fakes: Runner.CheckUpkeep, Encoder.Eligible/Detail/EncodeReport/KeysFromReport (keys as a JSON list), LogProvider, "
             "UpkeepProvider, HeadProvider",
             "the harness classifies each observation's bytes with the same codec and type the plug-in uses (encoding/json into ocr2keepers.Observation)",
             "keyed shuffle (AES-CTR over Keccak of the report timestamp) is an oracle constrained only to be a permutation; for the "
             "model/implementation comparison it is read off the implementation's own checked keys / observed id",
             "IsPending of the plug-in's own coordinator, tabulated per (block, id) by the harness, is the in-flight oracle of the model and of K"],
    assumptions=["off-chain config reaches the plug-in through config.DecodeOffchainConfig (batch >= 1; limit, overhead uint32 after defaults)",
                 "the local check pipeline returns results only for keys it was asked, each at most once (the plug-in does not re-check this); gas is a uint32",
                 "Encoder.Detail returns a key that splits into block|id (a malformed key would stage an empty identifier in the polling observer: not exercised)",
                 "block keys from the head ticker are canonical uint64 numerals and registered upkeep ids canonical uint256 numerals (C16_obs); without it the observation can be empty bytes (C16_obs_needs_id_bound)",
                 "canonical numerals are identified with their numbers; key 'block|id' with the pair"],
    modelled="pkg/v2: ObservationsToUpkeepKeys + Observation.Validate + BasicEncoder.Validate*/GetMedian/MakeUpkeepKey, filterAndDedupe, cap of ten, "
             "Report's eligibility/gas/batch loop (uint64 sums of the current tree; uint32 variant kept for the refutations), error paths, "
             "limitedLengthEncode byte lengths, PollingObserver stager/Observe, ocrPlugin.Observation. Exercised, not modelled: JSON codec, "
             "AES/Keccak shuffle, the coordinator (modelled under C17), sampling ratio (fixed to 1), logging",
)
