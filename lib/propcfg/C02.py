"""Driver configuration for C02."""

_OUTCOME_RULE = ("corpus + ~55 boundary families (exactly f / f+1 vouchers for n=4..13, 99/100/101/130 quorum candidates, two quorum "
                 "results for one work id, duplicate work id voiding an observation, all-invalid / no observations, every kind of "
                 "previous outcome, UniqueID collision pairs, one-field mutants of each of the 11 fields, forks / exact block quorum / "
                 "zero-hash blocks, 18-20 rounds of history, 49-70 new proposals, proposal vs performable, over-limit lists) + VERIF_N "
                 "random rounds (n in {4,7,10,13,31}, f <= (n-1)/3, Byzantine mutants, forks, random previous outcomes) from one PRNG; "
                 "every case is evaluated 9 times (3 repetitions x 3 plug-in instances with different staged results, in-flight reports "
                 "and virtual clocks); non-trivial = the implementation's outcome has an agreed performable or a surfaced proposal; "
                 "distinct = structural hash of the generator-form input")

_TRUSTED = ["plug-in instances from plugin.NewReportingPluginFactory with in-memory fake providers inside a testing/synctest bubble",
            "oracle tables tabulated from the real functions per case: UpkeepTypeGetter / WorkIDGenerator (tools/simulator/util), "
            "rank of CheckResult.UniqueID(), rank of random.ShuffleString(workID, GetRandomKeySource(digest, seq)); "
            "the harness asserts on the real functions that ShuffleString is injective on the case's work ids and that the work id "
            "ignores the check block (Section hypotheses shuf_inj / wg_ext)",
            "order-preserving interning of 32-byte ids and hashes (zero hash -> 0)",
            "Model/Validate.v (validation model, tied to the code by the C15 check)"]

CFG = dict(
    shrink_fields=['obs'],
    pkg="c01",
    tests=["TestC02"],
    n_quick=120, n_thorough=500, shards_thorough=6, timeout_quick=900, timeout_thorough=3000,
    rule=_OUTCOME_RULE,
    trusted=_TRUSTED,
    assumptions=["Go's map iteration order is an arbitrary permutation (quantified over in the theorems; sampled by 9 evaluations per case)",
                 "the shuffle ranks are computed by the harness outside any plug-in instance from (config digest, sequence number) only; "
                 "the model receives the orderings through those tables alone"],
    modelled="Outcome (performables, coordinated block, surfaced proposals) and Reports as functions of (F, digest, seq, previous outcome, "
             "attributed observations); node-local stores, coordinator and clock are not arguments of the model: equality with the "
             "implementation on differently populated instances is the correspondence check",
    partial="the Go scheduler / memory model are not modelled; byte-identity is observed on 9 evaluations per case",
)
