"""Driver configuration for C13 (check runner)."""

CFG = dict(
    tests=["TestC13", "TestC13Stress"],
    n_quick=120, n_thorough=700, shards_thorough=4,
    rule="corpus + 30 boundary families (0/1/9/10/11/20/21/25/1000 payloads with 128 and with 3 workers, everything cached, "
         "cached payloads between new ones with later batches completing first, same work id on a higher / lower block, "
         "same block other hash, expiry at exactly Expires and one ns later, expired entry replaced by a lower block, "
         "cache that never expires, failed results not cached, all / first / last / middle / only batch failing, one worker, "
         "pipeline returning none / two / id-less results, duplicate units of work, two overlapping callers on the same work ids) "
         "+ VERIF_N random histories of 1-5 calls (some overlapping) over a small pool of work ids / blocks / hashes, from one PRNG; "
         "log-trigger payloads (with LogTriggerExtension) are asked again on (same number, other hash), (other number, same hash), "
         "(same both), alone and mixed with conditional ones; even work ids of random cases are log triggers. "
         "TestC13Stress (direct.json): 16 (quick) / 120 (thorough) rounds on the real clock and real goroutines, ~1000 distinct "
         "payloads on as many workers as batches, all batches released at once by a barrier (1-4 waves, every k-th batch failing, "
         "second all-cached call), verdict = exact multiset one result per payload of the successful batches; "
         "non-trivial = a call was partly served from the cache and partly run, or a batch failed while another succeeded; "
         "distinct = structural hash of the generator-form input",
    trusted=["scripted Runnable (harness/c13/kit): per-batch latency on the synctest virtual clock, scripted batch failures, "
             "payload identity carried in CheckData, result identity in GasAllocated",
             "testing/synctest virtual clock (go1.26.8): events at distinct virtual instants are ordered by the clock; "
             "the harness re-draws latencies when two events share an instant",
             "pkg/util/worker.go (C14) as a black box that runs each batch once and reports results one at a time"],
    assumptions=["each payload instance of a call carries a distinct CheckData tag (two payloads of one call may still share work id, block and hash)",
                 "work ids, block hashes are interned to small integers; the empty work id is 0",
                 "C13_one_result_per_payload assumes a pipeline that answers every payload of a batch once with the payload's work id, block and hash"],
    modelled="Runner.parallelCheck / wrapAggregate / CheckUpkeeps, result accumulation (runner/result.go), util.Cache Get/Set with "
             "expiry, internal/util.Unflatten; exercised but not modelled: the cache's GC ticker (unobservable through Get), logging",
    partial="the real-goroutine stress part samples schedules of the Go scheduler (it cannot enumerate them); "
            "interleavings of two aggregators inside one virtual instant (goroutine pre-emption between Cache.Get and Cache.Set) are "
            "covered by the fine-grained model and theorem C13_concurrent_hit_exact, not by the correspondence run",
)
