"""Driver configuration for C15 (observation / outcome wire format)."""

CFG = dict(
    tests=["TestC15"],
    n_quick=24, n_thorough=160, shards_thorough=4,
    timeout_quick=600, timeout_thorough=3000,
    rule="one PRNG: corpus + boundary families (empty / nil-vs-empty, exactly at every limit and one above each, "
         "third upkeep type, old-style ids, price 0 / 2^256-1, gas 1 / 2^64-1, same work id in two sections, perform data of "
         "every length mod 3 over all byte values, work ids over all 128 ASCII characters, numbers at the edge of their Go type) "
         "+ VERIF_N random valid observations/outcomes, EACH followed by one mutant per documented rule (32 rules: 14 per-result, "
         "3 per-proposal, duplicates, 5+3 limits; the large limit mutants on every 4th random case and on the boundary cases) "
         "+ VERIF_N/3 byte-level random values; every value goes through the real Encode then the real Decode with "
         "tools/simulator/util GetUpkeepType / UpkeepWorkID. Validation-level cases carry interned ids with per-case utg/wg tables "
         "computed by the real functions; byte-level cases carry the real bytes of Encode(). A case is non-trivial when the value "
         "holds at least one result or proposal (byte level: more than the empty message). "
         "Fuzz stream (direct.json): 400*VERIF_N mutated encodings (bit flips, byte noise, truncation, deletion, splices, "
         "wrong-typed values, nesting to depth 100000, huge numbers, duplicated regions, injected keys, stray whitespace, random "
         "bytes; every third input mutated twice) into both decoders under recover(); inputs the decoder ACCEPTS are fed back as "
         "validation-level cases so that checker K judges them too",
    trusted=["error kind = substring match on the error text of Decode...; 'same' = field-by-field Go comparison incl. nil-ness",
             "Coq stdlib Decimal conversions (N.to_uint / Z.to_int and their proven inverses) as the definition of decimal text",
             "tools/simulator/util GetUpkeepType / UpkeepWorkID / NewUpkeepID as the injected utg / wg"],
    assumptions=["round trip: perform data are bytes (< 256) and work ids are ASCII strings (bytes < 128); non-ASCII Go strings "
                 "are outside the model (the codecs replace invalid UTF-8, which is lossy)",
                 "wg table key = (upkeep id, extension TxHash/Index/BlockHash): the harness checks on the real generator, for every "
                 "table entry, that the check block, its hash and the log's block number do not change the work id",
                 "validation theorems hold for arbitrary utg / wg functions; ids are interned injectively for the model"],
    modelled="pkg/v3/observation.go validateAutomationObservation / validateCheckResult / validateUpkeepProposal / "
             "validateTriggerExtensionType and pkg/v3/outcome.go validateAutomationOutcome statement by statement (first error first); "
             "the JSON text of AutomationObservation / AutomationOutcome as goccy/go-json and encoding/json (checkResultMsg) emit it, "
             "and a parser for exactly that text. Exercised, not modelled: the decoders' leniency on other JSON (whitespace, unknown "
             "or duplicate keys, over-long arrays, escapes), non-ASCII strings",
    partial="'no panic on arbitrary bytes' is memory safety of goccy/go-json + encoding/json; no model expresses it. It is searched "
            "by the mutational fuzz stream only (a panic is reported as a direct violation with the bytes as replay)",
)
