"""Driver configuration for C06."""

CFG = dict(
    tests=["TestC06"],
    pkg="c06",
    n_quick=400, n_thorough=1500, shards_thorough=6,
    rule="corpus + 38 boundary families (event polled before the acceptance and still returned afterwards, for every event type and min-confirmations setting; event polled while the record was expired; accept lower/equal/higher, perform then re-accept, min-confirmations edge, older/newer-block "
         "events, duplicated/late events, expiry at the exact nanosecond, expiry refreshed by an event, restart, life-cycle per event "
         "type, unknown upkeep type, window 0, default 20 min window, event before accept, visited entry outliving the record, "
         "plug-in any-of reports, plug-in reports in mixed states with the pending / acceptable upkeep in every position, plug-in restart) + VERIF_N random histories of 5-60 operations over 1-4 work ids from one PRNG "
         "+ 5 deterministic poller/accept race cases; a history is non-trivial when some ShouldTransmit answered true and some poll "
         "delivered events; distinct = structural hash of the generator-form case",
    trusted=["scripted TransmitEventProvider (returns the scripted batch for k polls, logs each delivery with its virtual time)",
             "testing/synctest virtual clock for the coordinator's 1 s poll timer, cache expiry and 30 s cache GC",
             "plug-in instance from plugin.NewReportingPluginFactory (report-level any-of), JSON report codec of tools/simulator/util",
             "log sink used as a scheduling point between the poller's cache Get and Set (race cases)"],
    assumptions=["work ids / tx hashes interned to small integers; visitedID (workID_txhash_block) is injective on hex work ids",
                 "operation times are non-negative and non-decreasing; operations are issued only at instants where no poll/GC tick is due "
                 "(atomic-operation histories); the racing-poller clause is covered by the fine-grained model + race cases",
                 "block numbers are compared only (no arithmetic), so uint64 is modelled as N without wrap"],
    modelled="coordinator.Accept / ShouldTransmit / checkEvents loop / cache Get-Set-ClearExpired (pkg/util/cache.go) and the any-of folds of "
             "ShouldAcceptAttestedReport / ShouldTransmitAcceptedReport; exercised but not modelled: report JSON codec, services.StateMachine, logging",
    partial="schedules: the real code cannot be forced onto every interleaving; the race clause is proved for the fine-grained two-thread model "
            "(refuted without the mutex, monotone for every schedule with it) and tied to the code by 5 deterministic race cases "
            "(answers must be explained by a serial order and lie in the locked model's outcome set)",
)
