"""Driver configuration for C11 (proposal metadata store and proposal queue)."""

CFG = dict(
    tests=["TestC11", "TestC11QueueRace"],
    n_quick=250, n_thorough=900, shards_thorough=5,
    rule="corpus + 15 metadata boundary families (expired key sorted before / between / after live ones, two expired first, "
         "alternating, all expired, expiry exact and +1 ns, unsorted inserts, re-add refreshing the time, hook removing surfaced "
         "proposals of several rounds, absent removes, the two upkeep types and a third, the proposal filterer, 30 keys) + 15 queue "
         "boundary families (dequeue once, same block inside the window, higher block supersedes, lower ignored, window exact / +1 ns, "
         "window re-opening, stale record, types, n limit, duplicates in one call, three chains of outcomes whose histories repeat "
         "proposals with a tick of both finalisation flows per round) + 3 end-to-end families (plug-in from the public factory fed 24-30 chained outcomes through Observation, hand-outs observed at the PayloadBuilder behind coordinatedProposalsTick.Value, emitted as queue cases) + VERIF_N random metadata histories + VERIF_N random queue "
         "histories from one PRNG; metadata: non-trivial = some view returned >= 2 proposals; queue: non-trivial = >= 2 non-empty "
         "dequeues; distinct = structural hash of the generator-form case",
    trusted=["testing/synctest virtual clock (time.Now / time.Since / timeFn inside the stores)",
             "tools/simulator/util.GetUpkeepType as the UpkeepTypeGetter",
             "end-to-end families: both finalisation flows tick at the same virtual instants; a tick that was handed nothing carries no upkeep type and is given the type the other call of that instant did not have",
             "projection of a CoordinatedBlockProposal to (type, work id, block, value id) by the harness; work ids are zero-padded so "
             "that Go's string order is the numeric order of the interned ids"],
    assumptions=["time read by the stores is non-decreasing",
                 "the record key equals the proposal's work id (as in AddProposals / Enqueue)",
                 "Dequeue is called with n >= 0"],
    modelled="orderedMap (Add/Get/Keys/Delete) with its key slice, metadataStore.AddProposals / RemoveProposals / ViewProposals for both "
             "upkeep types, RemoveFromMetadataHook.RunHook (as one RemoveProposals per surfaced proposal); proposalQueue.Enqueue / Dequeue "
             "with removed flag, first-seen time, window and map-iteration oracle (for the comparison the oracle is steered by the "
             "observed order), AddToProposalQHook.RunHook (one Enqueue per round); the proposal filterer is exercised and compared in Go "
             "against the view; flows/recovery.go and flows/conditional.go: coordinatedProposalsTick.Value (Dequeue(type, 50) then BuildPayloads) is exercised end to end and judged as a sequence of Dequeue operations; block history, Start/Close and Size are not modelled",
)
