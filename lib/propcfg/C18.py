"""Driver configuration for C18 (service life-cycle: recoverer, plugin.Close, tickers, stores, runner, coordinator)."""

CFG = dict(
    tests=["TestC18"],
    n_quick=400, n_thorough=2500, shards_thorough=4,
    timeout_quick=600, timeout_thorough=3000,
    shrink_fields=["phases"],
    rule="part A (cases.v): one case = one synctest bubble around the REAL service.NewRecoverer wrapping a gated service of one of "
         "three kinds (once = the real tickers.NewTimeTicker, i.e. chainlink-common StateMachine; fresh; sticky) driven through a phase "
         "script: per phase the actions start / Close / arm a panic / arm a spontaneous return are issued back to back (with 0..5 "
         "scheduler yields), the service goroutine is or is not held before it enters service.Start, a call of the wrapped service's Close() is or is not kept from returning (a slow Close: the cool-down can end while recoverer.Close is inside it), and 1.5 s or 25 s (> tick + 10 s "
         "cool-down) of virtual time pass, then synctest.Wait. Boundary families (every kind): clean, Close before Start, Close racing "
         "Start, Close while the launched service has not entered Start, Close during the cool-down, at the end of the cool-down, panic "
         "then recovery (once / twice / then Close), panic racing Close, restart held then Close, slow Close during the cool-down / while running / before Start, spontaneous return racing Close, Close "
         "while running; plus VERIF_N random scripts from one PRNG. Observation = Close result class, Start result class, service "
         "goroutine (none / held / inside Start / blocked sending), number of Start calls, Start entered after Close returned. "
         "Non-trivial = settled script with a Close or a panic. "
         "Part B (direct.json): real plug-in from the public factory, plugin.Close at 23 instants (right after creation with 1 P, after "
         "0..20 yields, after start-up, 1 ms .. 61 s incl. tick boundaries of every ticker and cache cleaner, during an in-progress 2 s "
         "pipeline run), calls still in progress once Close has returned (context not cancelled), runtime.Stack of the bubble filtered to repository frames + live block subscriptions + provider call counters "
         "after Close + 30 s + 1 h. Part C (direct.json): panic injected into the 1st / 3rd call of each provider, the check pipeline and "
         "the state updater (post-processor), one child process per case: process survives, every flow still ticks between 60 s and "
         "120 s, the affected call site is called again within 10 s, then Close + leak accounting.",
    trusted=["testing/synctest (go1.26.8): virtual clock, Wait = every goroutine of the bubble durably blocked; the end-of-bubble deadlock panic is absorbed, the goroutine snapshot is taken before",
             "harness services: `gated` wrapper (gate, counters), scripted fresh / sticky services, a panicking getter function for the real ticker",
             "goroutine dump parsing (innermost repository frame per goroutine of the bubble)",
             "part B/C known-finding labelling is done by the harness (classify): a leak is labelled close_before_service_start only if plugin.Close reported the matching 'not running / has not been started' errors and every leaked goroutine belongs to exactly those services"],
    assumptions=["recoverer.Start and recoverer.Close are each called at most once per recoverer (plugin.startServices / plugin.Close do that)",
                 "the context handed to the services is context.Background() (as in startServices): ctx.Done() is not modelled",
                 "service.Close() of the wrapped service returns once the executing Start has returned (start-once kind) or immediately (fresh / sticky)",
                 "the cool-down is one transition; Go's select among ready cases and the scheduler are nondeterministic choice; each access to shared state is one atomic transition"],
    modelled="pkg/v3/service/recoverable.go completely (Start, Close, serviceStart, recoverableStart; variants before / after the three repairs), "
             "plugin.Close / startServices over k recoverers, the wrapped service as start-once (StateMachine: tickers/time.go, coordinator.go) / fresh / sticky "
             "(result_store.go). Exercised but not modelled: what runs inside the services (tick goroutines, caches, worker group, subscription), "
             "runner / metadata store flag semantics, the per-tick recover of tickers/time.go, runner.go and coordinator.go, pkg/v2 and internal/util/recoverable.go",
    partial="goroutine identity, timer-channel semantics and virtual time are runtime facts: the tie between recoverable.go and the transition system is "
            "outcome-set inclusion per phase script (every observed outcome is an outcome of the model under the same script), not trace inclusion; "
            "plug-in level leaks and panic survival are observed, not modelled",
)
