"""Driver configuration for C20 (simulator verdict and run invariants)."""

CFG = dict(
    tests=["TestC20", "TestC20Race"],
    n_quick=100, n_thorough=500, shards_thorough=2,
    timeout_quick=900, timeout_thorough=3000,
    rule="five case files from one PRNG. fms: findMedianAndSplitData (verif-tag export) on every length 0..40 x 4 data shapes + VERIF_N random "
         "lists, panics recovered; non-trivial = more than 2 values. report: the real Group.ReportResults (node.NewGroup, real collectors, "
         "transmits through the real loader, some never loaded into a block) for 0..40 upkeep ids + VERIF_N/2 random, summary parsed from the "
         "log it writes; non-trivial = at least one upkeep. expected: 12 boundary plans + VERIF_N random plans through the real generators and "
         "NewOCR3TransmitLoader with a recording progress sink; non-trivial = expected count > 0. verdict: 14 boundary + VERIF_N/2 random "
         "increment schedules on the real ProgressTelemetry (go-pretty renderer running) inside synctest bubbles, incl. registration later than "
         "the first progress tick; non-trivial = at least one increment. wired: 10 boundary + VERIF_N/2 random runs of the real "
         "NewOCR3TransmitLoader registered with the real ProgressTelemetry (reports transmitted, loaded into blocks, Close, AllProgressComplete), "
         "incl. plans expecting none on which upkeeps are performed anyway. plan: 9 boundary + VERIF_N random plans through Encode/Decode or run.SetupOutput/run.LoadSimulationPlan (saved file), durations that are not whole "
         "milliseconds in every duration field, the whole plan compared structurally (not through the JSON codec), wire events inspected. "
         "report cases run the end-of-run sequence of Group.Start (WriteTransmitChart, then ReportResults) on a Group assembled as in main.go. direct.json: four real reduced 4-node simulations (cmd/simulator built with -race; genesis 99980 so that block "
         "numbers change length mid-run): performs expected and reached, performs expected but impossible (no OCR config), none expected and none performed, none expected but performed (must exit 1); "
         "thorough adds the three shipped plans. distinct = structural hash of the generator-form input",
    trusted=["verif-tag exports node.VerifFindMedianAndSplitData/... and Group.VerifTransmitter",
             "log-line parsing of the simulator's own summary, transmit table and per-node contract.log",
             "Go race detector (go1.26.8 build -race, GORACE=exitcode=0) and the classification of a report by the first non-runtime frame of either access",
             "testing/synctest virtual time for the progress tracker cases"],
    assumptions=["check counts and perform counts are far below 2^52 (medians are float64 of int sums)",
                 "the float averages of UpkeepStats (perform/check delay) are not modelled, only its control flow and big.Int arithmetic",
                 "verdict: increments are non-negative and every namespace is closed once (main.go calls Close after the node group stops); "
                 "go-pretty's renderer moves every finished tracker to its done list before Stop returns (observed on every verdict case)",
                 "plan codec: events are compared by type tag, `expected` and their remaining JSON content; the non-event part by field equality",
                 "expected performs are computed on the upkeeps/logs produced by the real generators (eligibility-function parsing is not modelled)"],
    modelled="node/statistics.go (all three helpers), the Checks-per-ID block of node/report.go, newUpkeepStatsBuilder/UpkeepStats control flow "
             "(node/stats.go), calculateExpectedPerformEvents/logTriggersUpkeep, ProgressTelemetry.track + go-pretty Tracker state, "
             "SimulationPlan.Encode/DecodeSimulationPlan at event-list level; exercised but not modelled: libocr, the plug-in, the simulated "
             "network/RPC, telemetry collectors, cmd/simulator/main.go wiring",
    partial="termination, exit status vs. performs in simulation.log, >= f+1 distinct checking nodes per transmitted upkeep, no empty report, "
            "saved plan loads back, no crash and no data race in repository code are observations on real runs (four reduced plans per quick "
            "run), reported through direct.json; races inside go-pretty (Tracker.timeStart) are third-party and only counted",
)
