"""Source drift: which files of the repository differ from the tree the models were written against."""
import fnmatch, hashlib, json, os

HERE = os.path.dirname(os.path.abspath(__file__))


def snapshot(repo):
    out = {}
    for root, dirs, files in os.walk(repo):
        dirs[:] = [d for d in dirs if d not in (".git", "node_modules", "vendor")]
        for f in files:
            rel = os.path.relpath(os.path.join(root, f), repo)
            if (f.endswith(".go") and not f.endswith("_test.go")) or (rel.startswith("tools/simulator/plans/") and f.endswith(".json")) \
                    or f in ("go.mod", "go.sum"):
                with open(os.path.join(root, f), "rb") as fh:
                    out[rel] = hashlib.sha256(fh.read()).hexdigest()[:16]
    return out


def anchors():
    res = {}
    for l in open(os.path.join(HERE, "..", "properties.jsonl")):
        p = json.loads(l)
        res[p["id"]] = [f for f in p["anchors"]["files"] if not f.startswith("(") and (f.endswith(".go") or f.endswith(".json"))]
    return res


def changed_files(repo):
    pins = json.load(open(os.path.join(HERE, "pinned_sources.json")))["files"]
    cur = snapshot(repo)
    return sorted(p for p in set(pins) | set(cur) if pins.get(p) != cur.get(p))


def dirs_of(pid, extra=()):
    ds = set()
    for f in list(anchors().get(pid, [])) + list(extra):
        ds.add(os.path.dirname(f))
    return ds


def drift_for(pid, repo, extra=()):
    """(files changed inside the property's source directories, changed files that belong to no property's directories)"""
    ch = changed_files(repo)
    if not ch:
        return [], []
    mine_dirs = dirs_of(pid, extra)
    all_dirs = set()
    for q in anchors():
        all_dirs |= dirs_of(q)
    mine = [f for f in ch if os.path.dirname(f) in mine_dirs]
    orphan = [f for f in ch if os.path.dirname(f) not in all_dirs]
    return mine, orphan
