"""Per-property configuration of the driver."""

COMMON_TRUSTED = [
    "Coq 8.16.1 kernel (coqc full .vo builds, vm_compute; no native_compute)",
    "axioms: none (Print Assumptions under every property theorem must report 'Closed under the global context')",
    "hand-written Gallina model tied to /repo by the correspondence run (Go harness on go1.26.8, testing/synctest where a clock is involved)",
    "gen/ (Go AST reader) for the constants in coq/Gen/Generated.v",
    "gen/translate.go (Go decision code -> Gallina, coq/Gen/GeneratedTr.v): conditions and branch structure translated semantically (integer conversions as identity, "
    "== on interned strings / enums as integer equality; which case of a select / type switch is taken is an input atom; an early continue of the unit's own loop equals reaching "
    "the end of its body), effect statements matched by text against a white list and interpreted by the model's own updates; gen/wiring.go reads which pre-/post-processors "
    "each flow constructor hands to its observer (call names in source order)",
    "Go harness generators, fakes and interning; goccy/go-json, encoding/json, big.Int",
]

import glob, importlib.util, os

PROPS = {}
for _p in sorted(glob.glob(os.path.join(os.path.dirname(os.path.abspath(__file__)), "propcfg", "C*.py"))):
    _spec = importlib.util.spec_from_file_location("propcfg_" + os.path.basename(_p)[:-3], _p)
    _m = importlib.util.module_from_spec(_spec)
    _spec.loader.exec_module(_m)
    PROPS[os.path.basename(_p)[:-3]] = _m.CFG
