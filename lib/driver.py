"""Verdict driver for /verif (see DESIGN.md §2 "Verdict" and §7 "Driver contract")."""
import argparse, fcntl, glob, hashlib, json, os, re, shutil, subprocess, sys, time
from concurrent.futures import ThreadPoolExecutor

from props import PROPS, COMMON_TRUSTED
import drift

VERIF = os.path.dirname(os.path.dirname(os.path.abspath(__file__)))
REPO = os.environ.get("VERIF_REPO", "/repo")
COQ = os.path.join(VERIF, "coq")
BUILD = os.path.join(VERIF, "build")
HARNESS = os.path.join(VERIF, "harness")
EVIDENCE = os.path.join(VERIF, "evidence")
REPLAYS = os.path.join(VERIF, "replays")
ALT = os.path.abspath(REPO) != "/repo"
if ALT:
    # Checks normally run against /repo itself.  For trying the machinery on a scratch worktree
    # (mutation experiments in parallel) VERIF_REPO points elsewhere: everything that depends on the
    # repository (Generated.v, compiled Coq tree, harness module, evidence, replays) then lives in a
    # private build directory so that /verif's own state is not disturbed.
    REPO = os.path.abspath(REPO)
    BUILD = os.path.join(VERIF, "build", "alt-" + hashlib.sha1(REPO.encode()).hexdigest()[:8])
    COQ, HARNESS = os.path.join(BUILD, "coq"), os.path.join(BUILD, "harness")
    EVIDENCE, REPLAYS = os.path.join(BUILD, "evidence"), os.path.join(BUILD, "replays")


def prepare_alt():
    os.makedirs(BUILD, exist_ok=True)
    subprocess.run(["rsync", "-a", "--delete", "--exclude", "Gen/", os.path.join(VERIF, "coq") + "/", COQ + "/"], check=True)
    subprocess.run(["rsync", "-a", "--delete", os.path.join(VERIF, "harness") + "/", HARNESS + "/"], check=True)
    os.makedirs(os.path.join(COQ, "Gen"), exist_ok=True)
    gm = os.path.join(HARNESS, "go.mod")
    txt = open(gm).read().replace("=> /repo", "=> " + REPO)
    open(gm, "w").write(txt)
GO_HARNESS = os.environ.get("VERIF_GO", "go1.26.8")

ENV = dict(os.environ)
ENV.update({"GOFLAGS": "-mod=mod", "GOPROXY": "off", "GOSUMDB": "off", "GOTOOLCHAIN": "local"})

FORBIDDEN = re.compile(r"\b(Admitted|admit|Axiom|Axioms|Parameter|Parameters|Conjecture|bypass_check|native_compute)\b|Unset\s+Guard|Unset\s+Positivity|Unset\s+Universe|type-in-type")


def sh(cmd, cwd=None, timeout=600, env=None, stdin=None):
    """Run a command under a timeout; returns (rc, combined output)."""
    try:
        p = subprocess.run(cmd, cwd=cwd, env=env or ENV, stdout=subprocess.PIPE, stderr=subprocess.STDOUT,
                           timeout=timeout, text=True, input=stdin)
        return p.returncode, p.stdout
    except subprocess.TimeoutExpired as e:
        out = e.stdout if isinstance(e.stdout, str) else (e.stdout or b"").decode("utf-8", "replace")
        return 124, (out or "") + "\n[timeout after %ds]" % timeout


class Lock:
    def __init__(self, name):
        os.makedirs(BUILD, exist_ok=True)
        self.path = os.path.join(BUILD, "." + name + ".lock")
    def __enter__(self):
        self.f = open(self.path, "w")
        fcntl.flock(self.f, fcntl.LOCK_EX)
    def __exit__(self, *a):
        fcntl.flock(self.f, fcntl.LOCK_UN)
        self.f.close()


# ----------------------------------------------------------------------------- steps

def coq_sources():
    out = []
    for d in ("Base", "Gen", "Model", "Proofs", "Props"):
        out += sorted(glob.glob(os.path.join(COQ, d, "*.v")))
    return [os.path.relpath(p, COQ) for p in out]


def step_gen(log):
    """Regenerate coq/Gen/Generated.v from /repo's sources."""
    with Lock("gen"):
        os.makedirs(os.path.join(COQ, "Gen"), exist_ok=True)
        rc, out = sh(["go", "build", "-o", os.path.join(BUILD, "gen"), "."], cwd=os.path.join(VERIF, "gen"), timeout=300)
        log.append("[gen build] rc=%d\n%s" % (rc, out))
        if rc != 0:
            return False
        rc, out = sh([os.path.join(BUILD, "gen"), REPO, os.path.join(COQ, "Gen", "Generated.v"),
                      os.path.join(VERIF, "gen", "pinned_tr.json")], timeout=60)
        log.append("[gen run] rc=%d\n%s" % (rc, out))
        return rc == 0


def step_make(target, log, jobs=16, timeout=3000):
    with Lock("make"):
        proj = "-Q . Verif\n" + "\n".join(coq_sources()) + "\n"
        pp = os.path.join(COQ, "_CoqProject")
        old = open(pp).read() if os.path.exists(pp) else ""
        if old != proj or not os.path.exists(os.path.join(COQ, "Makefile")):
            open(pp, "w").write(proj)
            rc, out = sh(["coq_makefile", "-f", "_CoqProject", "-o", "Makefile"], cwd=COQ, timeout=60)
            if rc != 0:
                log.append("[coq_makefile] rc=%d\n%s" % (rc, out))
                return False
        # every coqc runs under its own timeout: a diverging proof must not stall the build of the others
        args = ["make", "-j%d" % jobs, "COQC=timeout %d coqc" % int(os.environ.get("VERIF_COQC_TIMEOUT", "1500"))]
        rc, out = sh(args + ([target] if target != "-k" else ["-k"]), cwd=COQ, timeout=timeout)
        log.append("[make %s] rc=%d\n%s" % (target, rc, out[-6000:]))
        return rc == 0


def step_props(prop, outdir, log):
    """Re-check Props/Cxx.v, capturing the Print Assumptions blocks."""
    src = os.path.join(COQ, "Props", prop + ".v")
    text = open(src).read()
    names = re.findall(r"^Print Assumptions\s+(\w+)\.", text, re.M)
    theorems = re.findall(r"^(?:Theorem|Lemma|Corollary)\s+(\w+)", text, re.M)
    rc, out = sh(["coqc", "-Q", COQ, "Verif", "-o", os.path.join(outdir, prop + ".vo"), src], timeout=900)
    log.append("[coqc Props/%s.v] rc=%d\n%s" % (prop, rc, out[-4000:]))
    closed = len(re.findall(r"^Closed under the global context", out, re.M))
    axioms = re.findall(r"^Axioms:\n((?:.+\n?)*)", out, re.M)
    missing = [t for t in theorems if t not in names]
    return {"ok": rc == 0 and closed == len(names) and not axioms and not missing and len(names) > 0,
            "rc": rc, "obligations": len(names), "discharged": closed if rc == 0 else 0,
            "theorems": names, "axioms": axioms, "unprinted": missing,
            "refuted": [n for n in names if n.endswith("_refuted")],
            "partial": [n for n in names if n.endswith("_partial")]}


def step_coqchk(prop, log, timeout=3000):
    """Thorough tier: re-check the compiled property file and everything it depends on with the
    independent checker and report the axioms it relies on."""
    rc, out = sh(["coqchk", "-silent", "-o", "-Q", ".", "Verif", "Verif.Props.%s" % prop], cwd=COQ, timeout=timeout)
    log.append("[coqchk Props.%s] rc=%d\n%s" % (prop, rc, out[-2500:]))
    m = re.search(r"\* Axioms:\s*(.*?)\n\s*\n", out, re.S)
    axioms = m.group(1).strip() if m else "?"
    bad = [k for k in ("type-in-type", "unsafe (co)fixpoints", "positivity is assumed")
           if re.search(re.escape(k) + r":\s*<none>", out) is None]
    return {"ok": rc == 0 and axioms == "<none>" and not bad, "rc": rc, "axioms": axioms, "not_none": bad}


def dep_closure(prop):
    """Coq sources (relative paths) that Props/<prop>.v depends on, transitively (Verif.* only)."""
    seen, todo = set(), ["Props/%s.v" % prop]
    while todo:
        rel = todo.pop()
        if rel in seen or not os.path.exists(os.path.join(COQ, rel)):
            continue
        seen.add(rel)
        txt = open(os.path.join(COQ, rel)).read()
        txt = re.sub(r"\(\*.*?\*\)", "", txt, flags=re.S)
        for m in re.finditer(r"From\s+Verif\s+Require\s+(?:Import|Export)\s+(.*?)\.(?:\s|$)", txt, flags=re.S):
            for mod in m.group(1).split():
                todo.append(mod.replace(".", "/") + ".v")
    return sorted(seen)


def step_lint(prop, log):
    """No Admitted/admit/Axiom/... in any file the property's theorems depend on."""
    bad = []
    for rel in dep_closure(prop):
        if rel.startswith("Gen/"):
            continue
        txt = open(os.path.join(COQ, rel)).read()
        txt = re.sub(r"\(\*.*?\*\)", "", txt, flags=re.S)
        for m in FORBIDDEN.finditer(txt):
            bad.append("%s: %s" % (rel, m.group(0)))
    if bad:
        log.append("[lint] forbidden constructs: " + "; ".join(bad))
    return not bad


def test_pkgs(prop):
    """[(package dir, test name)] for the property; a test may be written "pkg:TestName"."""
    cfg = PROPS[prop]
    out = []
    for t in cfg["tests"]:
        if ":" in t:
            pkg, name = t.split(":", 1)
        else:
            pkg, name = cfg.get("pkg", prop.lower()), t
        out.append((pkg, name))
    return out


def step_harness_build(prop, outdir, log, tags="verif"):
    """Compile the property's harness package(s) (harness/<pkg>/) against REPO's working tree."""
    with Lock("harness"):
        shutil.copyfile(os.path.join(REPO, "go.sum"), os.path.join(HARNESS, "go.sum"))
        ok = True
        for pkg in sorted(set(p for p, _ in test_pkgs(prop))):
            binp = os.path.join(outdir, "harness-%s.test" % pkg)
            rc, out = sh([GO_HARNESS, "test", "-c", "-tags", tags, "-o", binp, "./" + pkg], cwd=HARNESS, timeout=1500)
            log.append("[harness build %s] rc=%d\n%s" % (pkg, rc, out[-6000:]))
            ok = ok and rc == 0 and os.path.exists(binp)
        return ok


def step_harness_run(pkg, test, outdir, seed, n, tier, replay, log, timeout, extra_env=None):
    env = dict(ENV)
    env.update({"VERIF_OUT": outdir, "VERIF_SEED": str(seed), "VERIF_TIER": tier,
                "VERIF_CORPUS": os.path.join(VERIF, "corpus")})
    if n is not None:
        env["VERIF_N"] = str(n)
    if replay:
        env["VERIF_REPLAY"] = replay
    if extra_env:
        env.update(extra_env)
    rc, out = sh([os.path.join(outdir, "harness-%s.test" % pkg), "-test.run", "^%s$" % test, "-test.timeout", "%ds" % timeout,
                  "-test.v"], cwd=os.path.join(HARNESS, pkg), env=env, timeout=timeout + 30)
    log.append("[harness %s:%s seed=%s n=%s] rc=%d\n%s" % (pkg, test, seed, n, rc, out[-6000:]))
    return rc == 0, out


def PROPS_PKG(test):
    for pid, c in PROPS.items():
        if test in c.get("tests", []):
            return c.get("pkg", pid.lower())
    return "."


RES = re.compile(r"^(R_\w+) =\s*(.*?)\n\s+: ", re.M | re.S)


def parse_results(out):
    res = {}
    for m in RES.finditer(out):
        name, val = m.group(1)[2:], m.group(2)
        if val.strip().startswith("["):
            res[name] = [int(x) for x in re.findall(r"(\d+)%nat", val)] if "%nat" in val else \
                        [int(x) for x in re.findall(r"\d+", val)]
        else:
            nums = re.findall(r"\d+", val)
            res[name] = [int(x) for x in nums] if len(nums) != 1 else int(nums[0])
            if val.strip() in ("true", "false"):
                res[name] = val.strip() == "true"
    return res


def step_cases(vfile, log, timeout=1200):
    d = os.path.dirname(vfile)
    rc, out = sh(["coqc", "-Q", COQ, "Verif", os.path.basename(vfile)], cwd=d, timeout=timeout)
    if rc != 0:
        log.append("[coqc %s] rc=%d\n%s" % (os.path.basename(vfile), rc, out[-3000:]))
        return None
    return parse_results(out)


# ----------------------------------------------------------------------------- known findings

def load_findings(prop):
    p = os.path.join(VERIF, "known_findings.json")
    if not os.path.exists(p):
        return []
    data = json.load(open(p))
    return [f for f in data.get("findings", []) if f.get("property") == prop]


# ----------------------------------------------------------------------------- one exploration

def case_key(c):
    """Structural hash of the generator-form input of a case (observed fields excluded)."""
    if isinstance(c, dict):
        c = {k: v for k, v in c.items() if k not in ("obs", "err", "observed", "out")}
    return hashlib.sha1(json.dumps(c, sort_keys=True).encode()).hexdigest()


def explore(prop, cfg, outdir, seed, n, tier, replay, log, timeout):
    """Run every harness part of the property once and evaluate all case files.
    Returns dict(ok, bad=[(file, idx, case)], mism=[...], kf={label: [(file, idx)]}, stats...)"""
    for f in glob.glob(os.path.join(outdir, "cases*")) + glob.glob(os.path.join(outdir, "direct*.json")):
        os.remove(f)
    r = {"harness_ok": True, "coq_ok": True, "bad": [], "mism": [], "kf": {}, "evaluations": 0,
         "nontrivial_keys": set(), "samples": [], "dist": {}, "cov": {}, "direct": [], "direct_known": {}}
    tests = test_pkgs(prop)
    if replay:
        # a replay file names the case file it was cut from; run only the test that writes it
        try:
            cfile = json.load(open(replay)).get("case_file")
        except Exception:
            cfile = None
        only = cfg.get("case_files", {}).get(cfile)
        if only:
            pkg, name = only.split(":", 1)
            tests = [(pkg, name)]
    for pkg, test in tests:
        ok, out = step_harness_run(pkg, test, outdir, seed, n, tier, replay, log, timeout)
        if not ok:
            r["harness_ok"] = False
            r["harness_out"] = out[-3000:]
            if "[timeout after" in out or "test timed out" in out:
                # the code under test hangs: the remaining parts would most likely hang as well
                log.append("[harness] %s:%s ran into its time limit; remaining parts skipped" % (pkg, test))
                break
    vfiles = sorted(glob.glob(os.path.join(outdir, "cases*.v")))
    # a case file may import models the property's own theorems do not depend on: build those first
    need = set()
    for vf in vfiles:
        head = open(vf).read(4000)
        for m in re.finditer(r"From\s+Verif\s+Require\s+(?:Import|Export)\s+(.*?)\.(?:\s|$)", head, flags=re.S):
            for mod in m.group(1).split():
                need.add(mod.replace(".", "/") + ".vo")  # make is incremental: nothing happens when it is up to date
    for rel in sorted(need):
        step_make(rel, log)
    with ThreadPoolExecutor(max_workers=8) as ex:
        results = list(ex.map(lambda v: step_cases(v, log, timeout), vfiles))
    for vf, res in zip(vfiles, results):
        base = os.path.basename(vf)[:-2]
        jpath = os.path.join(outdir, base + ".json")
        meta = json.load(open(jpath)) if os.path.exists(jpath) else {"cases": []}
        cases = meta.get("cases", [])
        if res is None:
            r["coq_ok"] = False
            continue
        r["evaluations"] += len(cases)
        for k, v in meta.items():
            if k in ("families", "sizes", "distribution"):
                r["dist"].setdefault(base, {})[k] = v
        for name, val in res.items():
            if name == "bad":
                r["bad"] += [(base, i, cases[i] if i < len(cases) else None) for i in val]
            elif name == "mism":
                r["mism"] += [(base, i, cases[i] if i < len(cases) else None) for i in val]
            elif name.startswith("kf_"):
                r["kf"].setdefault(name[3:], []).extend((base, i) for i in val)
            elif name == "nontriv":
                for i in val:
                    if i < len(cases):
                        r["nontrivial_keys"].add(case_key(cases[i]))
            else:
                r["cov"][base + "." + name] = val
        if cases and len(r["samples"]) < 3:
            small = sorted(cases, key=lambda c: len(json.dumps(c)))
            r["samples"].append(small[min(len(small) - 1, len(small) // 3)])
    for dj in sorted(glob.glob(os.path.join(outdir, "direct*.json"))):
        d = json.load(open(dj))
        r["evaluations"] += d.get("evaluations", 0)
        for k in (d.get("nontrivial_keys") or []):
            r["nontrivial_keys"].add(k)
        r["direct"] += (d.get("violations") or [])
        for k, v in (d.get("known") or {}).items():
            r["direct_known"].setdefault(k, []).extend(v)
        if d.get("samples") and len(r["samples"]) < 4:
            r["samples"] += d["samples"][:2]
        if d.get("distribution"):
            r["dist"][os.path.basename(dj)] = d["distribution"]
    return r


def uncovered(r, open_labels):
    cov = set()
    for lab in open_labels:
        cov |= set(r["kf"].get(lab, []))
    return [(b, i, c) for (b, i, c) in r["bad"] if (b, i) not in cov]


def shrink_case(prop, cfg, case, case_file, open_labels, outdir, seed, tier, log, timeout, budget_s=90):
    """Delta-debugging over the list fields named in cfg['shrink_fields'] of a generator-form case:
    candidates with chunks removed are run through implementation + model + K in one batch per
    iteration; a candidate that still fails K (outside the open known findings) replaces the case."""
    fields = [f for f in cfg.get("shrink_fields", []) if isinstance(case.get(f), list) and len(case[f]) > 1]
    if not fields:
        return case, 0
    t0, iters = time.time(), 0
    cur = case
    chunk = {f: max(1, len(cur[f]) // 2) for f in fields}
    while time.time() - t0 < budget_s and iters < 12:
        cands = []
        for f in fields:
            L = cur[f]
            n = chunk[f]
            if len(L) <= 1:
                continue
            for i in range(0, len(L), n):
                c = json.loads(json.dumps(cur))
                c[f] = L[:i] + L[i + n:]
                if c[f]:
                    cands.append(c)
        if not cands:
            break
        cands = cands[:40]
        rp = os.path.join(outdir, "shrink_candidates.json")
        json.dump({"property": prop, "case_file": case_file, "cases": cands}, open(rp, "w"))
        r = explore(prop, cfg, outdir, seed, None, tier, rp, log, timeout)
        iters += 1
        unc = uncovered(r, open_labels)
        better = [c for (b, i, c) in unc if c is not None]
        if better:
            cur = min(better, key=lambda c: len(json.dumps(c)))
            chunk = {f: max(1, min(chunk[f], len(cur[f]) // 2)) for f in fields if isinstance(cur.get(f), list)}
            fields = [f for f in fields if isinstance(cur.get(f), list) and len(cur[f]) > 1]
            if not fields:
                break
        else:
            if all(chunk[f] == 1 for f in fields):
                break
            chunk = {f: max(1, chunk[f] // 2) for f in fields}
    return cur, iters


def write_replay(prop, kind, payload):
    os.makedirs(REPLAYS, exist_ok=True)
    h = hashlib.sha1(json.dumps(payload, sort_keys=True, default=str).encode()).hexdigest()[:12]
    path = os.path.join(REPLAYS, "%s-%s-%s.json" % (prop, kind, h))
    json.dump(payload, open(path, "w"), indent=1, default=str)
    return path


# ----------------------------------------------------------------------------- main

def main(argv):
    ap = argparse.ArgumentParser()
    ap.add_argument("prop")
    ap.add_argument("--tier", default=os.environ.get("VERIF_TIER", "quick"), choices=["quick", "thorough"])
    ap.add_argument("--replay")
    ap.add_argument("--no-escalate", action="store_true")
    a = ap.parse_args(argv)
    prop, tier = a.prop, a.tier
    if prop not in PROPS:
        print("unknown property", prop)
        return 2
    cfg = PROPS[prop]
    seed = int(os.environ.get("VERIF_SEED", "1") or "1")
    t0 = time.time()
    log = []
    outdir = os.path.join(BUILD, prop)
    os.makedirs(outdir, exist_ok=True)
    os.makedirs(EVIDENCE, exist_ok=True)
    if ALT:
        prepare_alt()

    try:
        drift_mine, drift_orphan = drift.drift_for(prop, REPO, cfg.get("sources", []))
    except Exception as ex:  # a missing pin file must not break the check
        log.append("[drift] %r" % (ex,))
        drift_mine, drift_orphan = [], []
    drifted = bool(drift_mine or drift_orphan)
    log.append("[drift] changed in this property's source directories: %s; elsewhere (unowned): %s" % (drift_mine, drift_orphan))

    gen_ok = step_gen(log)
    # decision code translated from the source on this run (gen/translate.go): which functions this property's
    # model is tied to by translation, and whether each was recognised
    tr_status = {}
    try:
        for name, st in json.load(open(os.path.join(COQ, "Gen", "GeneratedTr.json"))).items():
            if prop in st.get("props", []):
                tr_status[name] = {k: st[k] for k in ("file", "func", "loop", "translated", "same_as_pinned", "why") if k in st}
    except Exception as ex:
        log.append("[gen] no translation status: %r" % (ex,))
    untranslated = sorted(k for k, v in tr_status.items() if not v.get("translated"))
    if untranslated:
        # the source no longer has a shape the translator recognises: the translation tie is lost for these
        # functions (their obligations are re-checked against the pinned terms only); the correspondence run
        # remains the tie and is escalated like any other drift
        drifted = True
        log.append("[gen] not translated (pinned term used): %s" % untranslated)
    lint_ok = step_lint(prop, log)
    make_ok = step_make("Props/%s.vo" % prop, log)
    pr = step_props(prop, outdir, log) if make_ok else {"ok": False, "obligations": 0, "discharged": 0, "theorems": [],
                                                         "axioms": [], "unprinted": [], "refuted": [], "partial": [], "rc": 1}
    proofs_ok = gen_ok and lint_ok and make_ok and pr["ok"]
    chk = None
    if tier == "thorough" and proofs_ok and not a.replay:
        chk = step_coqchk(prop, log)
        proofs_ok = proofs_ok and chk["ok"]

    hb_ok = step_harness_build(prop, outdir, log)

    findings = load_findings(prop)
    open_f = [f for f in findings if f.get("status") == "open"]
    open_labels = [f["label"] for f in open_f]
    n = cfg.get("n_" + tier)
    tmo = cfg.get("timeout_" + tier, 600 if tier == "quick" else 3000)
    violation = None
    r = None
    total_eval = 0
    if hb_ok:
        replay_arg = os.path.abspath(a.replay) if a.replay else None
        if replay_arg:
            # a replay file written by this driver wraps the cases; the harness reads {"cases": [...]}
            pass
        seeds = [seed] if tier == "quick" or a.replay else [seed * 1000 + k for k in range(cfg.get("shards_thorough", 4))]
        if drifted and tier == "quick" and not a.replay:
            # the sources this property is anchored in differ from the tree the model was written against:
            # meet the edit with more evidence (twice the random cases, three seeds)
            n = cfg.get("n_drift", n * 2 if n else n)
            seeds = [seed, seed * 1000 + 7, seed * 1000 + 8]
        agg = None
        for s in seeds:
            r = explore(prop, cfg, outdir, s, n, tier, replay_arg, log, tmo)
            total_eval += r["evaluations"]
            if agg is None:
                agg = r
            else:
                agg["nontrivial_keys"] |= r["nontrivial_keys"]
                for k in ("bad", "mism", "direct"):
                    agg[k] += r[k]
                for k, v in r["kf"].items():
                    agg["kf"].setdefault(k, []).extend(v)
                for k, v in r["direct_known"].items():
                    agg["direct_known"].setdefault(k, []).extend(v)
                agg["harness_ok"] &= r["harness_ok"]
                agg["coq_ok"] &= r["coq_ok"]
                agg["cov"].update({"%s@%s" % (k, s): v for k, v in r["cov"].items()})
            # direct observations attributed by the harness to a known finding count only while that finding is open
            for lab, items in list(r["direct_known"].items()):
                if lab not in open_labels:
                    r["direct"] += [{"label_not_an_open_finding": lab, "observation": it} for it in items]
                    del r["direct_known"][lab]
            unc = uncovered(r, open_labels)
            if unc or r["direct"]:
                break
            if not r["harness_ok"] and ("[timeout after" in r.get("harness_out", "") or "test timed out" in r.get("harness_out", "")):
                agg["harness_out"] = r.get("harness_out", "")
                break  # the harness hung on the code under test: the other seeds would hang as well
        r = agg
        r["evaluations"] = total_eval
        unc = uncovered(r, open_labels)
        if unc:
            b, i, c = min(unc, key=lambda x: len(json.dumps(x[2])))
            shrunk = 0
            if c is not None and not a.replay and cfg.get("shrink_fields"):
                try:
                    c, shrunk = shrink_case(prop, cfg, c, b, open_labels, outdir, seed, tier, log, tmo)
                except Exception as ex:  # shrinking is best effort; the unshrunk case is still a valid replay
                    log.append("[shrink] failed: %r" % (ex,))
            path = write_replay(prop, "fail", {"property": prop, "seed": seed, "kind": "checker-K-fails-on-implementation-output",
                                               "cases": [c], "case_file": b, "index": i, "shrink_iterations": shrunk,
                                               "how": "./check %s --replay <this file>" % prop,
                                               "also_failing": len(unc)})
            violation = (path, "")
        elif r["direct"]:
            path = write_replay(prop, "direct", {"property": prop, "seed": seed, "kind": "direct-observation",
                                                 "violations": r["direct"][:5]})
            violation = (path, "")
    # broken proof / correspondence without a failing input: escalate the search
    broken = []
    if not proofs_ok:
        broken.append("proofs: gen_ok=%s lint_ok=%s make_ok=%s props=%s coqchk=%s" % (gen_ok, lint_ok, make_ok, json.dumps(pr), json.dumps(chk)))
    if not hb_ok:
        broken.append("correspondence: harness does not compile against /repo")
    elif r is not None:
        if not r["harness_ok"]:
            broken.append("correspondence: harness run failed: " + r.get("harness_out", "")[-800:])
        if not r["coq_ok"]:
            broken.append("correspondence: case file did not evaluate")
        if r["mism"]:
            broken.append("correspondence: model and implementation disagree on %d case(s)" % len(r["mism"]))
    if violation is None and broken:
        found = None
        # a harness that ran into its time limit has hung on the code under test: more of the same will hang again
        hung = r is not None and not r["harness_ok"] and ("[timeout after" in r.get("harness_out", "") or "test timed out" in r.get("harness_out", ""))
        budget = time.time() + (420 if tier == "quick" else 1800)   # the escalated search is bounded in time
        if hb_ok and not a.no_escalate and not a.replay and not hung:
            for k in range(cfg.get("escalate_rounds", 3)):
                left = int(budget - time.time())
                if left < 30:
                    log.append("[escalate] time budget used up after %d round(s)" % k)
                    break
                s = seed * 7919 + 101 + k
                r2 = explore(prop, cfg, outdir, s, cfg.get("n_thorough", n), "thorough", None, log, min(left, cfg.get("timeout_thorough", 3000)))
                total_eval += r2["evaluations"]
                unc = uncovered(r2, open_labels)
                if unc:
                    b, i, c = min(unc, key=lambda x: len(json.dumps(x[2])))
                    found = write_replay(prop, "fail", {"property": prop, "seed": s, "kind": "checker-K-fails-on-implementation-output (found by escalated search)",
                                                        "cases": [c], "case_file": b, "index": i, "broken": broken,
                                                        "how": "./check %s --replay <this file>" % prop})
                    break
                if r2["direct"]:
                    found = write_replay(prop, "direct", {"property": prop, "seed": s, "violations": r2["direct"][:5], "broken": broken})
                    break
        if found:
            violation = (found, "")
        else:
            first = None
            if r is not None and r["mism"]:
                b, i, c = min(r["mism"], key=lambda x: len(json.dumps(x[2])))
                first = {"case_file": b, "index": i, "case": c}
            path = write_replay(prop, "unproved", {"property": prop, "seed": seed, "kind": "no-failing-input-found",
                                                   "harness_hung": hung,
                                                   "no_longer_checks": broken, "first_disagreeing_input": first,
                                                   "log_tail": "\n".join(log)[-6000:]})
            violation = (path, " no-failing-input-found")

    # known findings
    kf_lines = []
    for f in open_f:
        hits = len(r["kf"].get(f["label"], [])) + len(r["direct_known"].get(f["label"], [])) if r else 0
        kf_lines.append("KNOWN-FINDING: property=%s %s [%s; %s]" % (
            prop, f["what"], f["id"], ("reproduced on %d case(s) this run" % hits) if hits else "not reproduced this run"))

    wall = time.time() - t0
    ev = {
        "property_id": prop, "tier": tier, "seed": seed, "level": "proof",
        "coverage": {
            "obligations": pr["obligations"], "discharged": pr["discharged"],
            "checker_cmd": "coqc -Q coq Verif coq/Props/%s.v  (after `make -C coq Props/%s.vo`); cases: coqc -Q coq Verif build/%s/cases*.v" % (prop, prop, prop),
            "trusted_base": COMMON_TRUSTED + cfg.get("trusted", []),
            "theorems": pr["theorems"], "theorems_refuted": pr["refuted"], "theorems_partial": pr["partial"],
            "axioms_reported": pr["axioms"],
            "coqchk": chk if chk is not None else "thorough tier only",
            "evaluations": total_eval,
            "distinct_nontrivial": len(r["nontrivial_keys"]) if r else 0,
            "rule": cfg.get("rule", ""),
            "samples": (r["samples"] if r and r["samples"] else [{"note": "no case produced"}]),
            "input_distribution": r["dist"] if r else {},
            "model_coverage": r["cov"] if r else {},
            "source_drift": {"changed_in_property_sources": drift_mine, "changed_elsewhere_unowned": drift_orphan,
                             "escalated": bool(drifted and tier == "quick" and not a.replay),
                             "note": "files whose content differs from lib/pinned_sources.json (the tree the models were written against); "
                                     "drift alone raises nothing, it doubles the random cases and runs three seeds"},
            "translated_from_source": {"functions": tr_status, "not_recognised": untranslated,
                                       "note": "Gallina decision terms regenerated from /repo by gen/translate.go on this run; the Props file proves "
                                               "the model takes exactly these decisions (theorems *_gen_*); each obligation is exported in the Props file of the FIRST property of "
                                               "the unit's list in gen/tr_specs*.go and re-checked by every run of that property; the other listed properties share the model"},
            "model_vs_impl_mismatches": len(r["mism"]) if r else None,
            "checker_failures": len(r["bad"]) if r else None,
            "known_findings_open": [f["id"] for f in open_f],
            "modelled_not_verified": cfg.get("modelled", ""),
            "partial_note": cfg.get("partial", ""),
        },
        "assumptions": cfg.get("assumptions", []),
        "wall_s": round(wall, 2),
        "violations": 1 if violation else 0,
    }
    json.dump(ev, open(os.path.join(EVIDENCE, prop + ".json"), "w"), indent=1, default=str)
    open(os.path.join(outdir, "log.txt"), "w").write("\n".join(log))

    for l in kf_lines:
        print(l)
    if violation:
        print("VIOLATION property=%s replay=%s%s" % (prop, violation[0], violation[1]))
        return 1
    print("OK property=%s tier=%s obligations=%d/%d evaluations=%d distinct_nontrivial=%d wall=%.1fs" % (
        prop, tier, pr["discharged"], pr["obligations"], total_eval, ev["coverage"]["distinct_nontrivial"], wall))
    return 0
